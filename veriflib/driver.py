"""Driver: scratch copy -> mechanical instrumentation -> Kani -> verdict -> replay -> evidence."""
import argparse, atexit, json, os, re, shutil, signal, subprocess, sys, tempfile, time

VERIF = os.path.dirname(os.path.dirname(os.path.abspath(__file__)))
sys.path.insert(0, VERIF)
import obligations as OBL  # noqa: E402

KANI_ENV = dict(os.environ, CARGO_NET_OFFLINE='true', CARGO_TERM_COLOR='never')
CONTRACT_DIRS = {'llfree': ('core', 'contracts/core'), 'llfree-eval': ('eval', 'contracts/eval')}
UNDECIDED_PATTERNS = [
    'unwinding assertion', 'is not currently supported by Kani', 'not currently supported',
    'recursion unwinding assertion',
]

_scratch_dirs = []


def _cleanup():
    for d in _scratch_dirs:
        shutil.rmtree(d, ignore_errors=True)


atexit.register(_cleanup)
for _s in (signal.SIGTERM, signal.SIGINT, signal.SIGHUP):
    signal.signal(_s, lambda n, f: sys.exit(2))


def log(*a):
    print(*a, file=sys.stderr, flush=True)


# ------------------------------------------------------------------------------------------------
# scratch copy + instrumentation (DESIGN.md section 2)
# ------------------------------------------------------------------------------------------------

def make_scratch(repo):
    base = os.environ.get('VERIF_SCRATCH_BASE') or tempfile.gettempdir()
    d = tempfile.mkdtemp(prefix='llfree-verif-', dir=base)
    _scratch_dirs.append(d)
    for item in ('core', 'eval', 'Cargo.toml', 'Cargo.lock', 'README.md', 'rust-toolchain.toml'):
        src = os.path.join(repo, item)
        if os.path.isdir(src):
            shutil.copytree(src, os.path.join(d, item), ignore=shutil.ignore_patterns('target'))
        elif os.path.exists(src):
            shutil.copy2(src, os.path.join(d, item))
    # Kani brings its own pinned toolchain; the repo's pin (1.95.0) must not redirect it.
    rt = os.path.join(d, 'rust-toolchain.toml')
    if os.path.exists(rt):
        os.remove(rt)
    return d


def instrument(scratch):
    """Purely additive, mechanical edits of the scratch copy. Returns a description list."""
    dropped = []
    for pkg, (crate_dir, cdir) in CONTRACT_DIRS.items():
        src_c = os.path.join(os.environ.get('VERIF_CONTRACTS_ROOT', VERIF), cdir)
        if not os.path.isdir(src_c):
            continue
        dst_c = os.path.join(scratch, 'verif_contracts', crate_dir)
        os.makedirs(dst_c, exist_ok=True)
        for fn in sorted(os.listdir(src_c)):
            if not fn.endswith('.rs'):
                continue
            shutil.copy2(os.path.join(src_c, fn), os.path.join(dst_c, fn))
            if fn.startswith('_'):
                continue  # helper file included by another contract file
            target = os.path.join(scratch, crate_dir, 'src', fn)
            if not os.path.exists(target):
                raise Undecided(f'anchor lost: {crate_dir}/src/{fn} does not exist')
            with open(target, 'a') as f:
                f.write(f'\n#[cfg(kani)] #[path = "{os.path.join(dst_c, fn)}"] pub(crate) mod verif_contracts;\n')
    # core/Cargo.toml: logging off (drops only log side effects), replay feature for cover-free runs
    ct = os.path.join(scratch, 'core', 'Cargo.toml')
    txt = open(ct).read()
    new, n = re.subn(r'(?m)^log = \{ version = "0\.4", default-features = false \}$',
                     'log = { version = "0.4", default-features = false, features = ["max_level_off"] }', txt)
    if n != 1:
        raise Undecided('anchor lost: log dependency line in core/Cargo.toml')
    new, n = re.subn(r'(?m)^\[features\]$', '[features]\nverif_replay = []\nverif_nocover = []\nverif_nt2 = []\nverif_partial = []', new)
    if n != 1:
        raise Undecided('anchor lost: [features] in core/Cargo.toml')
    open(ct, 'w').write(new)
    dropped.append('log macros compiled out (log/max_level_off): trace!/debug!/info!/warn!/error! argument evaluation')
    et = os.path.join(scratch, 'eval', 'Cargo.toml')
    txt = open(et).read()
    new, n = re.subn(r'(?m)^\[features\]$', '[features]\nverif_replay = ["llfree/verif_replay"]\nverif_nocover = ["llfree/verif_nocover"]', txt)
    if n == 1:
        open(et, 'w').write(new)
    # workspace profile: keep as is. Offline config.
    os.makedirs(os.path.join(scratch, '.cargo'), exist_ok=True)
    with open(os.path.join(scratch, '.cargo', 'config.toml'), 'w') as f:
        f.write('[net]\noffline = true\n')
    return dropped


class Undecided(Exception):
    pass


# ------------------------------------------------------------------------------------------------
# running Kani
# ------------------------------------------------------------------------------------------------

def qualified(ob):
    mod = ob['module']
    if ob.get('pkg') == 'verus':
        return 'lemmas/' + mod + '.rs::' + ob['harness']
    return ('verif_contracts::' if mod == 'lib' else f'{mod}::verif_contracts::') + ob['harness']


def kani_cmd(pkg, features, harnesses, tier, jobs, out_json, timeout, extra=(), target_dir=None):
    cmd = ['cargo', 'kani', '-p', pkg, '-Z', 'unstable-options', '-Z', 'function-contracts', '-Z', 'stubbing',
           '--output-format', 'terse', '--exact', '--export-json', out_json,
           '--harness-timeout', f'{int(timeout)}s', '-j', str(jobs)]
    if target_dir:
        cmd += ['--target-dir', target_dir]
    if features:
        cmd += ['--features', ','.join(features)]
    # assertion-reachability checks multiply CBMC's work (measured 25 min instead of 50 s per obligation on the
    # initialisation harnesses): vacuity is guarded by the cover statements of the designated obligations instead
    cmd += ['--no-assertion-reach-checks']
    for h in harnesses:
        cmd += ['--harness', h]
    cmd += list(extra)
    return cmd


def run_verus(obs):
    """Verus lemmas (code-free inductions over the contracts): one file per obligation."""
    results = {}
    t0 = time.time()
    for o in obs:
        f = os.path.join(VERIF, 'lemmas', o['module'] + '.rs')
        p = subprocess.run(['verus', f, '--triggers-mode', 'silent'], cwd=os.path.join(VERIF, 'lemmas'), stdout=subprocess.PIPE, stderr=subprocess.STDOUT, text=True)
        m = re.search(r'verification results:: (\d+) verified, (\d+) errors', p.stdout)
        if m and int(m.group(2)) == 0 and int(m.group(1)) > 0:
            results[o['key']] = dict(status='discharged', checks_total=int(m.group(1)), covers=0, stats={}, failed=[], output='')
        elif m:
            results[o['key']] = dict(status='failed', checks_total=int(m.group(1)), covers=0, stats={}, output=p.stdout[-3000:],
                                      failed=[dict(description='Verus: lemma not verified', function=o['module'], location={'file': f, 'line': '?'}, category='lemma')])
        else:
            results[o['key']] = dict(status='undecided', reason='verus produced no result: ' + p.stdout[-300:], checks=[], stats={}, output=p.stdout[-3000:])
    return results, time.time() - t0, ['verus', 'lemmas/*.rs']


# C21 ("every call finishes in bounded steps"): for this property the unwinding assertions ARE the
# obligation - a loop or recursion that does not exit within the stated bound is the violation.
UNWIND_IS_VIOLATION = False


def run_group(scratch, pkg, features, obs, tier, jobs):
    """Run one cargo-kani invocation for obligations sharing package+features. Returns dict name->result."""
    if pkg == 'verus':
        return run_verus(obs)
    out_json = os.path.join(scratch, f'kani-{pkg}-{"-".join(features) or "default"}.json')
    if os.path.exists(out_json):
        os.remove(out_json)
    timeout = max(o['timeout'] for o in obs) * (3 if tier == 'thorough' else 1)
    tdir = os.path.join(scratch, 'target-' + pkg + '-' + ('-'.join(features) or 'default'))
    cmd = kani_cmd(pkg, features, [qualified(o) for o in obs], tier, jobs, out_json, timeout, target_dir=tdir)
    t0 = time.time()
    log(f'[kani] {pkg} features={list(features)} harnesses={len(obs)} jobs={jobs}')
    p = subprocess.run(cmd, cwd=scratch, env=KANI_ENV, stdout=subprocess.PIPE, stderr=subprocess.STDOUT, text=True)
    wall = time.time() - t0
    out = p.stdout
    results = {}
    data = None
    if os.path.exists(out_json):
        try:
            data = json.load(open(out_json))
        except Exception:
            data = None
    if data is None:
        reason = 'build error or Kani produced no result file'
        m = re.findall(r'(?m)^error(?:\[E\d+\])?: .*$', out)
        if m:
            reason += ': ' + ' | '.join(m[:3])
        for o in obs:
            results[o['key']] = dict(status='undecided', reason=reason, output=out[-6000:], checks=[], stats={})
        return results, wall, cmd
    for r in data['verification_results']['results']:
        for c in r.get('checks', []):
            loc = c.get('location') or {}
            f = loc.get('file') or ''
            if f.startswith(scratch):
                loc['file'] = f[len(scratch):].lstrip('/').replace('verif_contracts/', '/verif/contracts/')
    by_id = {r['harness_id']: r for r in data['verification_results']['results']}
    stats = {c['harness_id']: (c.get('cbmc_stats') or {}) for c in data.get('cbmc', [])}
    errs = {e['harness_id']: e for e in data.get('error_details', [])}
    for o in obs:
        q = qualified(o)
        r = by_id.get(q)
        if r is None:
            results[o['key']] = dict(status='undecided', reason='harness not found in Kani result (renamed anchor or build problem)',
                                      output=out[-3000:], checks=[], stats={})
            continue
        checks = r.get('checks', [])
        failed = [c for c in checks if c['status'] in ('Failure',)]
        undet = [c for c in checks if c['status'] in ('Undetermined', 'Unknown')]
        covers = [c for c in checks if c.get('category') == 'cover']
        bad_cov = [c for c in covers if c['status'] not in ('Satisfied',)]
        res = dict(checks_total=len(checks), covers=len(covers), stats=stats.get(q, {}), duration_ms=r.get('duration_ms'),
                   failed=[], output='')
        err = errs.get(q, {})
        if r['status'] == 'Success' and not failed and not undet:
            if bad_cov:
                res.update(status='undecided', reason='vacuity: cover not satisfied: ' + '; '.join(c['description'] for c in bad_cov))
            else:
                res.update(status='discharged')
        else:
            pats = [p for p in UNDECIDED_PATTERNS if not (UNWIND_IS_VIOLATION and 'unwinding' in p)]
            real = [c for c in failed if not any(pat in c['description'] for pat in pats)]
            if real:
                res.update(status='failed', failed=[dict(description=c['description'], function=c.get('function'),
                                                         location=c.get('location'), category=c.get('category')) for c in real])
            else:
                why = err.get('error_type') or err.get('exit_status') or 'no failing property'
                if failed:
                    why = 'only unwinding/unsupported-construct checks failed: ' + '; '.join(sorted(set(c['description'] for c in failed)))[:300]
                res.update(status='undecided', reason=f'{why} (timeout, out of memory, unwinding bound or unsupported construct)')
        results[o['key']] = res
    return results, wall, cmd


# ------------------------------------------------------------------------------------------------
# replay (native re-execution of Kani's counterexample on the real, rustc-compiled code)
# ------------------------------------------------------------------------------------------------

PLAYBACK_RE = re.compile(r'```\n(/// Test generated for harness.*?)```', re.S)


def fix_test_src(src):
    src = src.replace('let concrete_vals: Vec<Vec<u8>> = vec![', 'let concrete_vals: std::vec::Vec<std::vec::Vec<u8>> = std::vec![')
    src = re.sub(r'(?m)^(\s+)vec!\[', r'\1std::vec![', src)
    return src


def contract_file(scratch, ob):
    crate_dir = CONTRACT_DIRS[ob['pkg']][0]
    return os.path.join(scratch, 'verif_contracts', crate_dir, ob['module'] + '.rs')


def obtain_counterexample(scratch, ob, tier):
    """Re-run the failed obligation without covers and with concrete playback; return list of test sources."""
    feats = tuple(ob['features']) + ('verif_replay',)
    out_json = os.path.join(scratch, 'kani-replay.json')
    cmd = kani_cmd(ob['pkg'], feats, [qualified(ob)], 'quick', 1, out_json, ob['timeout'] * 3,
                   extra=['-Z', 'concrete-playback', '--concrete-playback=print'])
    p = subprocess.run(cmd, cwd=scratch, env=KANI_ENV, stdout=subprocess.PIPE, stderr=subprocess.STDOUT, text=True)
    tests = []
    for m in PLAYBACK_RE.finditer(p.stdout):
        t = m.group(1)
        if 'Check for `cover`' in t:
            continue
        tests.append(fix_test_src(t))
    return tests, p.stdout


def run_native(scratch, ob, test_src):
    """Append the playback test to the scratch contract module and run it natively."""
    cf = contract_file(scratch, ob)
    m = re.search(r'fn (kani_concrete_playback_\w+)', test_src)
    name = m.group(1)
    with open(cf, 'a') as f:
        f.write('\n' + test_src + '\n')
    cmd = ['cargo', 'kani', 'playback', '-Z', 'concrete-playback', '-p', ob['pkg'], '--lib']
    feats = tuple(ob['features']) + ('verif_replay',)
    cmd += ['--features', ','.join(feats), '--', name]
    p = subprocess.run(cmd, cwd=scratch, env=dict(KANI_ENV, RUST_BACKTRACE='0'), stdout=subprocess.PIPE,
                       stderr=subprocess.STDOUT, text=True)
    out = p.stdout
    ran = re.search(r'test result: (\w+)\. (\d+) passed; (\d+) failed', out)
    if not ran:
        return 'not-run', out[-4000:]
    if int(ran.group(3)) > 0:
        return 'fails', out[-4000:]
    return 'passes', out[-4000:]


def write_replay(prop, ob, res, tests, kani_out, native, native_out, repo):
    os.makedirs(os.path.join(VERIF, 'replays'), exist_ok=True)
    path = os.path.join(VERIF, 'replays', f'{prop}-{ob["harness"]}.json')
    rec = dict(property=prop, obligation=ob['key'], harness=qualified(ob), pkg=ob['pkg'], module=ob['module'],
               features=list(ob['features']), functions_under_contract=ob['fn'], failed_checks=res['failed'],
               kani_output=kani_out[-8000:], native_test=tests[0] if tests else None, all_native_tests=tests,
               native_outcome=native, native_output=native_out, repo=repo,
               how_to_replay=f'./check --replay {path}')
    json.dump(rec, open(path, 'w'), indent=1)
    return path


def cmd_replay(path, repo):
    rec = json.load(open(path))
    if not rec.get('native_test'):
        print(f'replay file {path} carries no concrete input (obligation {rec["obligation"]}); verifier output follows')
        print(rec.get('kani_output', '')[-3000:])
        return 1
    scratch = make_scratch(repo)
    instrument(scratch)
    ob = dict(pkg=rec['pkg'], module=rec['module'], features=rec['features'], harness=rec['harness'])
    outcome, out = run_native(scratch, ob, rec['native_test'])
    print(out[-3000:])
    print(f'replay outcome: native test {outcome}')
    return 1 if outcome == 'fails' else (0 if outcome == 'passes' else 2)


# ------------------------------------------------------------------------------------------------
# known findings
# ------------------------------------------------------------------------------------------------

def load_known():
    p = os.path.join(VERIF, 'KNOWN_FINDINGS')
    known = []
    if os.path.exists(p):
        for line in open(p):
            line = line.strip()
            if line.startswith('finding:'):
                known.append(json.loads(line[len('finding:'):]))
    return known


def _source_line(scratch, loc):
    try:
        f = loc.get('file') or ''
        path = f if os.path.isabs(f) else os.path.join(scratch, f)
        lines = open(path).read().split('\n')
        n = int(loc.get('line') or 0)
        return '\n'.join(lines[max(0, n - 2):n + 1])
    except Exception:
        return ''


def match_known(known, prop, ob, fc, scratch=''):
    for k in known:
        if k['property'] != prop:
            continue
        if k.get('obligation') and not re.fullmatch(k['obligation'], ob['key']):
            continue
        if k['check'] not in fc['description']:
            continue
        if k.get('function') and k['function'] not in (fc.get('function') or ''):
            continue
        if k.get('source_text') and k['source_text'] not in _source_line(scratch, fc.get('location') or {}):
            continue
        return k
    return None


# ------------------------------------------------------------------------------------------------
# assumption scan (mechanical; reported in evidence)
# ------------------------------------------------------------------------------------------------

def scan_assumptions(obs):
    mods = sorted({(o['pkg'], o['module']) for o in obs if o['pkg'] != 'verus'})
    n_assume = n_stub = 0
    for pkg, mod in mods:
        f = os.path.join(VERIF, CONTRACT_DIRS[pkg][1], mod + '.rs')
        if os.path.exists(f):
            t = open(f).read()
            n_assume += len(re.findall(r'kani::assume\(', t))
            n_stub += len(re.findall(r'#\[kani::stub\(', t))
    return n_assume, n_stub


# ------------------------------------------------------------------------------------------------
# one property
# ------------------------------------------------------------------------------------------------

BASE_TRUST = [
    'Kani 0.68 MIR-to-goto translation and its std models; CBMC 6.11; CaDiCaL SAT solver',
    'Kani pinned nightly compiles the code as Rust 1.95 does (debug profile, overflow checks on as in the release profile)',
    'log macros compiled out in the verified copy (log/max_level_off); no other text of /repo is changed, only child modules appended',
    'machine integers are CBMC bit-vectors (not mathematical integers)',
    'atomics execute sequentially consistent; interference exists only where an obligation injects it',
]


def cmd_check(prop, tier, repo, seed):
    global UNWIND_IS_VIOLATION
    UNWIND_IS_VIOLATION = (prop == 'C21')
    t0 = time.time()
    all_obs = OBL.for_property(prop, tier)
    only = [m for m in os.environ.get('VERIF_ONLY_MODULES', '').split(',') if m]
    if only:
        # seeded-change runs: keep the obligations over functions of the changed source files
        all_obs = [o for o in all_obs if o['module'] in only or any(f.split('::')[0] in only for f in o['fn'])]
    if not all_obs:
        print(f'no obligations registered for {prop}')
        return 2
    known = load_known()
    # evidence is only recorded for runs against /repo itself (seeded / scratch copies write elsewhere)
    ev_dir = os.path.join(VERIF, 'evidence') if os.path.realpath(repo) == '/repo' else os.path.join(tempfile.gettempdir(), 'verif-evidence-scratch')
    evidence_path = os.path.join(ev_dir, f'{prop}.json')
    os.makedirs(os.path.dirname(evidence_path), exist_ok=True)
    if os.path.exists(evidence_path):
        os.remove(evidence_path)
    undecided, violations, known_hits = [], [], []
    results = {}
    cmds = []
    try:
        scratch = make_scratch(repo)
        dropped = instrument(scratch)
        groups = {}
        for o in all_obs:
            feats = tuple(o['features']) + (() if o.get('cover', True) else ('verif_nocover',))
            groups.setdefault((o['pkg'], feats), []).append(o)
        total_jobs = int(os.environ.get('VERIF_JOBS', '16'))
        n_all = sum(len(v) for v in groups.values())
        from concurrent.futures import ThreadPoolExecutor
        def _run(item):
            (pkg, feats), obs = item
            share = max(1, round(total_jobs * len(obs) / n_all))
            jobs = min(len(obs), min(o.get('jobs', 16) for o in obs), share if len(groups) > 1 else total_jobs)
            return run_group(scratch, pkg, feats, obs, tier, max(1, jobs))
        with ThreadPoolExecutor(max_workers=max(1, len(groups))) as ex:
            for (res, wall, cmd), ((pkg, feats), obs) in zip(ex.map(_run, list(groups.items())), list(groups.items())):
                results.update(res)
                cmds.append(' '.join(cmd[:12]) + ' ... (%d harnesses, %.0fs)' % (len(obs), wall))
        # verdicts
        for o in all_obs:
            r = results[o['key']]
            if r['status'] == 'undecided':
                undecided.append((o, r))
            elif r['status'] == 'failed':
                unknown_fc = []
                for fc in r['failed']:
                    k = match_known(known, prop, o, fc, scratch)
                    if k:
                        known_hits.append((o, k))
                    else:
                        unknown_fc.append(fc)
                if unknown_fc:
                    r['failed'] = unknown_fc
                    violations.append((o, r))
                else:
                    r['status'] = 'known-finding'
        # replay each violation
        vio_lines = []
        for o, r in violations:
            if o['pkg'] == 'verus':
                path = write_replay(prop, o, r, [], r.get('output', ''), 'not-run', '', repo)
                vio_lines.append((f'VIOLATION property={prop} replay={path} no-failing-input-found', o, r, 'not-run'))
                continue
            tests, kout = obtain_counterexample(scratch, o, tier)
            native, nout = ('not-run', '')
            if tests:
                native, nout = run_native(scratch, o, tests[0])
            path = write_replay(prop, o, r, tests, kout, native, nout, repo)
            line = f'VIOLATION property={prop} replay={path}'
            if native != 'fails':
                line += ' no-failing-input-found'
            vio_lines.append((line, o, r, native))
    except Undecided as e:
        print(f'UNDECIDED property={prop} reason={e}')
        return 2
    finally:
        _cleanup()

    # report
    seen = set()
    for o, k in known_hits:
        key = k['what']
        if key not in seen:
            seen.add(key)
            print(f'KNOWN-FINDING: property={prop} {k["what"]}')
    for line, o, r, native in vio_lines:
        print(f'FAILED-OBLIGATION property={prop} obligation={o["key"]} functions={",".join(o["fn"])} checks=' +
              ' | '.join(f'{fc["description"]} @ {(fc.get("location") or {}).get("file", "?")}:{(fc.get("location") or {}).get("line", "?")}' for fc in r['failed'][:4]) +
              f' native-replay={native}')
        print(line)
    for o, r in undecided:
        print(f'UNDECIDED property={prop} obligation={o["key"]} reason={r["reason"]}')

    discharged = [o for o in all_obs if results[o['key']]['status'] == 'discharged']
    solver_s = sum((results[o['key']].get('stats') or {}).get('runtime_solver_s', 0) or 0 for o in all_obs)
    n_assume, n_stub = scan_assumptions(all_obs)
    fns = sorted({f for o in all_obs for f in o['fn']})
    assumed = sorted({s for o in all_obs for s in o.get('assumes', [])})
    samples = []
    for o in all_obs[:6]:
        r = results[o['key']]
        samples.append(dict(obligation=o['key'], functions=o['fn'], kind=o['kind'], bound=o.get('bound'), status=r['status'],
                            cbmc_checks=r.get('checks_total'), covers=r.get('covers'),
                            solver_s=(r.get('stats') or {}).get('runtime_solver_s'), claim=o.get('claim')))
    n_proof = len([o for o in all_obs if o['kind'] != 'bounded'])
    bounded = [o['key'] for o in all_obs if o['kind'] == 'bounded']
    ev = dict(
        property_id=prop, tier=tier, seed=seed, level=OBL.LEVEL.get(prop, 'proof'),
        coverage=dict(
            obligations=len([o for o in all_obs if results[o['key']]['status'] != 'known-finding']), discharged=len(discharged),
            known_finding_obligations=[o['key'] for o in all_obs if results[o['key']]['status'] == 'known-finding'],
            checker_cmd='; '.join(cmds) if cmds else 'cargo kani',
            trusted_base=BASE_TRUST + OBL.TRUST.get(prop, []),
            samples=samples,
            functions_under_contract=fns,
            obligations_all=[dict(name=o['key'], status=results[o['key']]['status'], kind=o['kind'],
                                  features=list(o['features']), bound=o.get('bound'),
                                  solver_s=(results[o['key']].get('stats') or {}).get('runtime_solver_s'),
                                  duration_s=round((results[o['key']].get('duration_ms') or 0) / 1000, 1),
                                  cbmc_checks=results[o['key']].get('checks_total')) for o in all_obs],
            backend='Kani 0.68.0 / CBMC 6.11.0 / CaDiCaL',
            solver_time_s=round(solver_s, 3),
            cbmc_checks_total=sum(results[o['key']].get('checks_total') or 0 for o in all_obs),
            covers_satisfied=sum(results[o['key']].get('covers') or 0 for o in discharged),
            bounded_standins=bounded,
            proof_obligations=n_proof,
            callee_contracts_assumed=assumed,
            kani_assume_calls_in_contract_files=n_assume, kani_stub_attributes_in_contract_files=n_stub,
            extraction_drops=dropped,
            known_findings_reported=sorted(seen),
            undecided=[o['key'] for o, _ in undecided],
            explanation=OBL.EXPLAIN.get(prop, ''),
        ),
        assumptions=BASE_TRUST + OBL.TRUST.get(prop, []) + [f'callee contract assumed (checked by its own obligation): {a}' for a in assumed],
        wall_s=round(time.time() - t0, 1),
        violations=len(vio_lines),
    )
    json.dump(ev, open(evidence_path, 'w'), indent=1)
    print(f'{prop} [{tier}]: obligations={len(all_obs)} discharged={len(discharged)} known-finding={len([1 for o in all_obs if results[o["key"]]["status"] == "known-finding"])} '
          f'violations={len(vio_lines)} undecided={len(undecided)} solver={solver_s:.1f}s wall={time.time() - t0:.0f}s')
    if vio_lines:
        return 1
    if undecided:
        return 2
    return 0


def cmd_list():
    for p in OBL.properties():
        for tier in ('quick', 'thorough'):
            obs = OBL.for_property(p, tier)
            print(p, tier, len(obs))
            if tier == 'thorough':
                for o in obs:
                    print('   ', o['tier'][0], o['key'], list(o['features']), o['kind'], '|', ','.join(o['fn']))


def main(argv):
    ap = argparse.ArgumentParser()
    ap.add_argument('what', nargs='?')
    ap.add_argument('rest', nargs='*')
    ap.add_argument('--tier', default=os.environ.get('VERIF_TIER', 'quick'), choices=['quick', 'thorough'])
    ap.add_argument('--repo', default=os.environ.get('VERIF_REPO', '/repo'))
    ap.add_argument('--replay')
    a = ap.parse_args(argv)
    seed = int(os.environ.get('VERIF_SEED', '0') or 0)
    if a.replay:
        return cmd_replay(a.replay, a.repo)
    if a.what == 'list':
        return cmd_list()
    if a.what == 'selftest':
        import selftest
        return selftest.run(a.rest, a.tier)
    if not a.what:
        ap.print_help()
        return 2
    return cmd_check(a.what, a.tier, a.repo, seed)
