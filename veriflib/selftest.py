"""./check selftest [seed ids...]: apply the seeded changes to scratch copies of /repo and run the checks of the
properties they break (veriflib/seedtool.py run). /repo itself is never touched."""
import seedtool


def run(ids, tier):
    rows = seedtool.run(ids, tier)
    missed = [r for r in rows if len(r) >= 3 and not r[2].startswith('DETECTED')]
    for r in rows:
        print(r[0], r[1], r[2], r[3] if len(r) > 3 else '')
    return 0 if not missed else 3
