#!/bin/bash
# Runs every claimed check (quick tier) against /repo, sequentially; prints one summary line per property.
cd "$(dirname "$0")/.."
for id in $(python3 -c "import json;print(' '.join(c['property_id'] for c in json.load(open('MANIFEST.json'))['checks']))"); do
  if [ -n "$1" ] && ! echo " $* " | grep -q " $id "; then continue; fi
  s=$(date +%s)
  out=$(./check $id --tier ${VERIF_TIER:-quick} 2>/dev/null)
  rc=$?
  echo "$id rc=$rc $(( $(date +%s) - s ))s :: $(echo "$out" | tail -1)"
  echo "$out" | grep -E "^(VIOLATION|UNDECIDED|KNOWN-FINDING|FAILED-OBLIGATION)" | cut -c1-300
done
