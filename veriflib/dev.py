#!/usr/bin/env python3
"""dev helper: ./veriflib/dev.py [--repo R] [--pkg P] [--features F] [--keep] filter... : run harness filters, print failed checks"""
import sys, os, json, subprocess, argparse, time
sys.path.insert(0, os.path.dirname(os.path.abspath(__file__)))
import driver
ap = argparse.ArgumentParser()
ap.add_argument('filters', nargs='+')
ap.add_argument('--repo', default='/repo')
ap.add_argument('--pkg', default='llfree')
ap.add_argument('--features', default='')
ap.add_argument('-j', default='16')
ap.add_argument('--reach', action='store_true')
ap.add_argument('--timeout', default='900')
ap.add_argument('--playback', action='store_true')
ap.add_argument('--nocover', action='store_true')
ap.add_argument('--solver', default='')
a = ap.parse_args()
s = driver.make_scratch(a.repo)
driver.instrument(s)
out = os.path.join(s, 'o.json')
cmd = ['cargo', 'kani', '-p', a.pkg, '-Z', 'unstable-options', '-Z', 'function-contracts', '-Z', 'stubbing', '--output-format', 'terse',
       '--export-json', out, '--harness-timeout', a.timeout + 's', '-j', a.j]
if not a.reach: cmd.append('--no-assertion-reach-checks')
feats = ','.join(x for x in [a.features, 'verif_nocover' if a.nocover else ''] if x)
if feats: cmd += ['--features', feats]
if a.solver: cmd += ['--solver', a.solver]
if a.playback: cmd += ['-Z', 'concrete-playback', '--concrete-playback=print']
for f in a.filters: cmd += ['--harness', f]
t = time.time()
p = subprocess.run(cmd, cwd=s, env=driver.KANI_ENV, stdout=subprocess.PIPE, stderr=subprocess.STDOUT, text=True)
if not os.path.exists(out):
    import re as _re
    errs = _re.findall(r'(?ms)^error.*?(?=^(?:error|warning)|\Z)', p.stdout)
    print('\n'.join(e[:900] for e in errs[:6]) or p.stdout[-5000:]); sys.exit(2)
d = json.load(open(out))
st = {c['harness_id']: (c.get('cbmc_stats') or {}) for c in d.get('cbmc', [])}
for r in d['verification_results']['results']:
    bad = [c for c in r['checks'] if c['status'] not in ('Success', 'Unreachable', 'Satisfied')]
    cs = st.get(r['harness_id'], {})
    print(f"{r['status']:8} {r['harness_id']}  {r.get('duration_ms',0)/1000:.1f}s checks={len(r['checks'])} symex={cs.get('runtime_symex_s')} ssa={cs.get('runtime_convert_ssa_s')} solver={cs.get('runtime_solver_s')} vccs={cs.get('vccs_remaining')} size={cs.get('size_program_expression')}")
    bad.sort(key=lambda c: 0 if c['status']=='Failure' else 1)
    from collections import Counter
    if bad: print('     ', Counter(c['status'] for c in bad))
    for c in bad[:12]:
        print('     ', c['status'], '|', c['description'], '|', c.get('function'), (c.get('location') or {}).get('file','').replace(s,''), (c.get('location') or {}).get('line'))
if a.playback:
    import re
    for m in driver.PLAYBACK_RE.finditer(p.stdout):
        if 'Check for `cover`' not in m.group(1): print(m.group(1))
names = {r['harness_id'] for r in d['verification_results']['results']}
print('total %.0fs' % (time.time() - t), len(names), 'harnesses')
if not names: print(p.stdout[-3000:])
