#!/usr/bin/env python3
"""Regenerates /verif/MANIFEST.json from the obligation registry and the per-property texts below."""
import json, os, sys
VERIF = os.path.dirname(os.path.dirname(os.path.abspath(__file__)))
sys.path.insert(0, VERIF)
import obligations as OBL

ALL = ['C%02d' % i for i in range(1, 24)]

TECH = 'contract-based deductive verification of the real code (Kani/CBMC pre/post obligations per function)'

# property -> (level category, level text, level note, design ref)
CLAIMS = {
    'C23': ('proof',
            'Contract on first_zeros_aligned (postcondition transcribed from the statement) discharged by Kani/CBMC for all 2^64 '
            'rows, one loop-free obligation per order 0..=6: a complete proof for the function, not a bounded run.',
            'Trusts Kani/CBMC/CaDiCaL and that Kani\'s nightly compiles the function as Rust 1.95 does; default 4K geometry '
            '(the function does not depend on the geometry).',
            'DESIGN.md section 6 C23'),
}

NOT_APPLICABLE = {
    'C20': 'The logic is an unnamed region of main() in eval/src/bin/replay.rs (argument parsing, mmap of a trace, one loop body over '
           'locals): there is no function to put a contract on without editing the code under test or writing a look-alike model.',
    'C22': 'llc/ is an empty directory (submodule not populated) and eval/src/llc.rs does not compile without the generated bindings: '
           'there is no C code in the tree to put a contract on.',
}
NOT_YET = 'not claimed yet: contracts for the functions this property depends on are not built in this revision (see DESIGN.md section 6)'


def main():
    checks = []
    registered = OBL.properties()
    for pid in ALL:
        if pid in CLAIMS and pid in registered:
            cat, text, note, ref = CLAIMS[pid]
            checks.append(dict(
                property_id=pid,
                quick_cmd=f'./check {pid} --tier quick',
                thorough_cmd=f'./check {pid} --tier thorough',
                evidence_file=f'/verif/evidence/{pid}.json',
                replay_cmd_template='./check --replay {path}',
                engine='kani-contracts',
                level_claimed=dict(category=cat, text=text, design_ref=ref),
                level_note=note,
                technique=TECH,
            ))
    na = []
    for pid in ALL:
        if pid in CLAIMS and pid in registered:
            continue
        na.append(dict(property_id=pid, reason=NOT_APPLICABLE.get(pid, NOT_YET)))
    m = dict(
        version=1,
        setup_cmd='true',
        hooks=dict(
            guard='cargo feature `verif` of crate llfree (none committed yet: current obligations need no hook)',
            enable='checks copy /repo to a scratch dir, append `#[cfg(kani)] mod verif_contracts` child modules and run cargo kani',
            baseline_off_cmd='cd /repo && cargo test --workspace --no-fail-fast --offline',
            source_commits=[],
            add_only=True,
        ),
        engines=[dict(name='kani-contracts', path='/verif/check', serves_properties=[c['property_id'] for c in checks],
                      kind_free_text='pre/post contracts on the real functions, discharged per function by Kani 0.68 / CBMC 6.11; '
                                     'callee contracts used as verified stubs; native replay of counterexamples')],
        checks=checks,
        notes='Exit 2 = undecided (build error, lost anchor, timeout, unsupported construct): never an alarm. '
              'KNOWN_FINDINGS lists recorded defects; replays/ holds counterexamples.',
        not_applicable=na,
    )
    json.dump(m, open(os.path.join(VERIF, 'MANIFEST.json'), 'w'), indent=1)
    print('claimed:', [c['property_id'] for c in checks])


if __name__ == '__main__':
    main()
