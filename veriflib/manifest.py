#!/usr/bin/env python3
"""Regenerates /verif/MANIFEST.json from the obligation registry and the per-property texts below."""
import json, os, sys
VERIF = os.path.dirname(os.path.dirname(os.path.abspath(__file__)))
sys.path.insert(0, VERIF)
import obligations as OBL

ALL = ['C%02d' % i for i in range(1, 24)]

TECH = 'contract-based deductive verification of the real code (Kani/CBMC pre/post obligations per function)'

# property -> (level category, level text, level note, design ref)
SEQ_NOTE = ('Trusts Kani/CBMC/kissat/CaDiCaL and that Kani\'s nightly compiles the code as Rust 1.95 does; log macros compiled out; '
            'callee contracts used as stubs are each discharged by their own obligation (listed in the evidence); sequential execution of atomics; '
            'configuration bound: default geometry, 1 tree at the lower level / 2 trees and <= 3 classes at the allocator level in the quick tier.')
def P(text, ref, note=SEQ_NOTE, cat='proof'):
    return (cat, text, note, ref)
CLAIMS = {
    'C01': P('Sequential part: contracts on Lower::get/get_at/put (block aligned, in range, entirely free before, exactly it marked) and on every allocator-level '
             'allocation path (a success returns the block of its one lower-level allocation), discharged for all states under the representation invariants. '
             'All-interleavings part: thread-modular rely/guarantee call contracts of the bit-claiming functions (set_first_zeros, set_first_zero_rows, toggle, all orders): '
             'a returned block is exclusively owned, a failed call keeps nothing, for any number of other threads and any schedule.', 'DESIGN.md 4, 6 C01',
             note=SEQ_NOTE + ' Concurrency: sequentially consistent atomics; rely = other threads meet the same guarantee (DESIGN.md 4.3, paper argument); retry loops modelled with one interference '
                  'between load and CAS; multi-huge-frame CAS and the counter protocol of Lower::get/put are covered sequentially only.'),
    'C03': P('For the bit-level functions every free of a held block returns Ok and no call panics (undo expect()s included) under the rely/guarantee environment: any number of '
             'threads, any schedule. One level up, Locals::drain/get/put/swap conserve frames (no reservation lost) and do not panic with any interference on the slot words (slot-word environment). '
             'The tree counters and the LLFree paths are covered sequentially only (C09).', 'DESIGN.md 0, 4, 6 C03',
             note=SEQ_NOTE + ' Concurrency scope: Bitfield::toggle / set_first_zeros / set_first_zero_rows only; partial_put_huge spin-wait (panic "Exceeding retries" when a peer stalls) is NOT covered.'),
    'C02': P('The ownership-model clauses of the statement are the postconditions of Lower::put/get/get_at (all bit states of a tree, every order) and of LLFree::put/get (all '
             'counter states under invariant I); initialisation establishes the invariants (C06 obligations), every operation preserves them, so they hold after every history.', 'DESIGN.md 6 C02'),
    'C04': P('Invariant I (tree counter + slot counter == frames free below; reserved <=> one slot holds the tree) and wf_lower (counter == zeros) are preserved by every public operation; '
             'stats/stats_at/is_free/tree_stats/validate are proved to agree with the abstract view under them. Sequential/quiescent-after-sequential only.', 'DESIGN.md 6 C04'),
    'C05': P('Lower::recover from ANY persistent state keeps the allocation status of every frame and establishes wf_lower, for every frame count (partial last tree included). '
             'Crash points inside a call and the rebuilt upper level are not covered in this revision.', 'DESIGN.md 6 C05'),
    'C06': P('Lower::free_all / reserve_all for EVERY frame count with 1..4 bitfields (symbolic count), exact resulting pattern, nothing written outside; frame count 0.', 'DESIGN.md 6 C06'),
    'C07': P('Assume-initialized construction writes no byte of arbitrary buffers and yields the configured shape; metadata() returns the buffers passed in. '
             'Equality of later behaviour rests on determinism of sequential Rust (assumption).', 'DESIGN.md 6 C07'),
    'C08': P('LLFree::check over the full usize domain; LLFree::put rejects invalid arguments without side effects; construction rejects every too-small / misaligned / overlapping '
             'buffer layout; ZoneAlloc rejects frames below its offset.', 'DESIGN.md 6 C08'),
    'C09': P('"No panic" is a side obligation of every discharged contract (Kani checks every reachable panic, overflow, index): all lower operations for all states under wf_lower, '
             'all allocator-level paths under invariant I for every kind-policy incl. zero-slot classes, init with 0 frames, recovery with partial trees.', 'DESIGN.md 6 C09'),
    'C10': P('After a drain (no slot holds a tree, never-Invalid policy) a base-order allocation fails only if no frame outside offline trees is free: proved modularly - every inner '
             'helper meets the completeness contract C0 (a failure changes nothing and implies the tree was reserved / empty / Invalid), search_best visits every acceptable tree, LLFree::get '
             'is checked against those contracts. Targeted allocation: lower level Ok iff the block is free (all states); allocator level in the thorough tier (c10_drained_targeted_2c, all real bodies).', 'DESIGN.md 6 C10, 12'),
    'C11': P('Tree::sync_steal has the statement\'s threshold (all tree words); get_local fails only if slot and held tree are exhausted (C0); search_and_reserve fails only if every other '
             'tree is reserved or empty; LLFree::get with one class and one slot, checked against these contracts, reports out-of-memory only if no frame is free - all states under invariant I.', 'DESIGN.md 6 C11, 12'),
    'C12': P('set_first_zeros for all 2^512 bitfield states and every order (Err iff no aligned free block, via a universally quantified witness), lifted to Lower::get over all '
             'states of a tree under wf_lower, every start hint, every order.', 'DESIGN.md 6 C12'),
    'C13': P('Tree::steal / reserve_or_steal over all tree words and every pure policy; every allocator-level allocation path returns the requested class or one rated Match/Steal '
             '(generic helper contract G, all states under I, every kind-policy).', 'DESIGN.md 6 C13'),
    'C14': P('tree_stats under invariant I: class free counts sum to the fast total; class totals equal trees*TREE_FRAMES when no reservation holds free frames; the case with '
             'reservations is a recorded known finding.', 'DESIGN.md 6 C14'),
    'C15': P('Tree::change over all words/matchers; change_tree applies to at most one matching unreserved tree, offline empties and online restores the exact count; every allocation '
             'path returns only frames of trees that are not offline (contract G).', 'DESIGN.md 6 C15'),
    'C16': P('SortedBuffer::add inductive step for capacities 1..8 over any sorted-prefix state (=> every insertion sequence); search_best tries the N best-rated candidates best first.', 'DESIGN.md 6 C16'),
    'C17': P('ZoneAlloc translation against an inner allocator with arbitrary behaviour (contract stub); NvmAlloc::create over a zone of 8 frames: the lower metadata lies behind the managed '
             'frames and in front of the header page, the header check refuses any other magic / frame count, recovery passes the same frame count in recover mode. "Same allocation state after '
             'recovery" is C05.', 'DESIGN.md 6 C17'),
    'C18': P('CBMC pointer-validity, bounds and arithmetic checks are discharged inside every obligation; specific: metadata size computation, slices carved by LLFree::new for arbitrary '
             'buffer layouts, initialisation writes nothing outside. Sequential only; data races and weak memory are outside Kani.', 'DESIGN.md 6 C18'),
    'C19': P('Count::to_local against to_count over all usize; ClassingConfig::request for 1..4 classes, every Count kind, any order window, all order/core/cores/pid/gfp values.', 'DESIGN.md 6 C19',
             note='GfpMatch::matches is replaced by an arbitrary boolean (assumed: pure, terminating); class ids distinct; cores >= 1.'),
    'C21': P('Without interference Atom::try_update/update run their closure exactly once (unwinding bound of one retry discharged); spin_wait polls at most RETRIES times; every loop of every '
             'obligation exits within its unwinding bound. With a symbolic interference budget (environment frozen at any point) the bit-level calls still complete within their unwinding bounds.', 'DESIGN.md 6 C21'),
    'C23': ('proof',
            'Contract on first_zeros_aligned (postcondition transcribed from the statement) discharged by Kani/CBMC for all 2^64 '
            'rows, one loop-free obligation per order 0..=6: a complete proof for the function, not a bounded run.',
            'Trusts Kani/CBMC/CaDiCaL and that Kani\'s nightly compiles the function as Rust 1.95 does; default 4K geometry '
            '(the function does not depend on the geometry).',
            'DESIGN.md section 6 C23'),
}

NOT_APPLICABLE = {
    'C20': 'The logic is an unnamed region of main() in eval/src/bin/replay.rs (argument parsing, mmap of a trace, one loop body over '
           'locals): there is no function to put a contract on without editing the code under test or writing a look-alike model.',
    'C22': 'llc/ is an empty directory (submodule not populated) and eval/src/llc.rs does not compile without the generated bindings: '
           'there is no C code in the tree to put a contract on.',
}
NOT_YET = 'not claimed yet: contracts for the functions this property depends on are not built in this revision (see DESIGN.md section 6)'


def main():
    checks = []
    registered = OBL.properties()
    for pid in ALL:
        if pid in CLAIMS and pid in registered:
            cat, text, note, ref = CLAIMS[pid]
            checks.append(dict(
                property_id=pid,
                quick_cmd=f'./check {pid} --tier quick',
                thorough_cmd=f'./check {pid} --tier thorough',
                evidence_file=f'/verif/evidence/{pid}.json',
                replay_cmd_template='./check --replay {path}',
                engine='kani-contracts',
                level_claimed=dict(category=cat, text=text, design_ref=ref),
                level_note=note,
                technique=TECH,
            ))
    na = []
    for pid in ALL:
        if pid in CLAIMS and pid in registered:
            continue
        na.append(dict(property_id=pid, reason=NOT_APPLICABLE.get(pid, NOT_YET)))
    m = dict(
        version=1,
        setup_cmd='true',
        hooks=dict(
            guard='none: no hook or instrumentation is committed in /repo (cfg(kani) child modules are appended to a scratch copy only)',
            enable='checks copy /repo to a scratch dir, append `#[cfg(kani)] mod verif_contracts` child modules and run cargo kani',
            baseline_off_cmd='cd /repo && cargo test --workspace --no-fail-fast --offline',
            source_commits=[],
            add_only=True,
        ),
        engines=[dict(name='kani-contracts', path='/verif/check', serves_properties=[c['property_id'] for c in checks],
                      kind_free_text='pre/post contracts on the real functions, discharged per function by Kani 0.68 / CBMC 6.11 (kissat / CaDiCaL); '
                                     'callee contracts used as verified stubs; thread-modular rely/guarantee environments for the lower allocator; '
                                     'native replay of counterexamples (cargo kani playback)'),
                 dict(name='verus-lemmas', path='/verif/lemmas/lifting.rs', serves_properties=['C01', 'C02', 'C04'],
                      kind_free_text='Verus 0.2026.09.13: induction over histories and disjointness of held blocks from the per-call contracts')],
        checks=checks,
        notes='Exit 2 = undecided (build error, lost anchor, timeout, unsupported construct): never an alarm. '
              'KNOWN_FINDINGS lists recorded defects (known findings F2 and F10; 10 fixed entries); replays/ holds counterexamples; seeded/ holds 41 confirmed '
              'property-breaking changes with the detection table (seeded/RESULTS.md). 10 "fix:" commits in /repo repair defects the obligations found. '
              'The source commits list is empty because no hook was needed.',
        not_applicable=na,
    )
    json.dump(m, open(os.path.join(VERIF, 'MANIFEST.json'), 'w'), indent=1)
    print('claimed:', [c['property_id'] for c in checks])


if __name__ == '__main__':
    main()
