#!/usr/bin/env python3
"""Seeded-change bookkeeping.

  seedtool.py harvest <src-dir> <id>     confirm a candidate change (patch.diff + demo.rs) in a scratch worktree of /repo:
                                         suite passes with it, demo fails with it, demo passes without it; then store it
                                         under /verif/seeded/<id>/ with meta.json
  seedtool.py run [<id>...]              for each stored seed: apply to a scratch COPY of /repo and run the checks of the
                                         property it breaks (never touches /repo); prints a detection table
"""
import json, os, re, shutil, subprocess, sys, tempfile, time

VERIF = os.path.dirname(os.path.dirname(os.path.abspath(__file__)))
REPO = '/repo'
ENV = dict(os.environ, CARGO_NET_OFFLINE='true', CARGO_TERM_COLOR='never')


def sh(cmd, cwd=None, env=None, timeout=3600):
    p = subprocess.run(cmd, cwd=cwd, env=env or ENV, shell=isinstance(cmd, str), stdout=subprocess.PIPE,
                       stderr=subprocess.STDOUT, text=True, timeout=timeout)
    return p.returncode, p.stdout


def suite_ok(out):
    res = re.findall(r'test result: (\w+)\. (\d+) passed; (\d+) failed', out)
    return bool(res) and all(r[0] == 'ok' for r in res) and sum(int(r[1]) for r in res) >= 50, res


def harvest(src, sid, prop=None):
    patch = os.path.join(src, 'patch.diff')
    demo = os.path.join(src, 'demo.rs')
    dtxt = open(demo).read()
    m = re.search(r'eval/tests/(\w+)\.rs', dtxt)
    tname = m.group(1)
    base = tempfile.mkdtemp(prefix='seedchk-')
    wt = os.path.join(base, 'wt')
    env = dict(ENV, CARGO_TARGET_DIR=os.path.join(base, 'target'))
    log = {}
    try:
        rc, out = sh(['git', '-C', REPO, 'worktree', 'add', '--detach', wt, 'HEAD'])
        assert rc == 0, out
        rc, out = sh(['git', 'apply', '--check', patch], cwd=wt)
        if rc != 0:
            print(f'{sid}: patch does not apply to current /repo HEAD: {out[:300]}')
            return False
        shutil.copy(demo, os.path.join(wt, 'eval', 'tests', tname + '.rs'))
        # demo without change
        rc, out = sh(['cargo', 'test', '--offline', '-p', 'llfree-eval', '--test', tname], cwd=wt, env=env)
        log['demo_without_change'] = 'pass' if rc == 0 else 'FAIL'
        log['demo_without_change_tail'] = out[-600:]
        sh(['git', 'apply', patch], cwd=wt)
        rc, out = sh(['cargo', 'test', '--offline', '-p', 'llfree-eval', '--test', tname], cwd=wt, env=env)
        log['demo_with_change'] = 'pass' if rc == 0 else 'FAIL'
        log['demo_with_change_tail'] = out[-1500:]
        os.remove(os.path.join(wt, 'eval', 'tests', tname + '.rs'))
        rc, out = sh(['cargo', 'test', '--workspace', '--no-fail-fast', '--offline'], cwd=wt, env=env)
        ok, res = suite_ok(out)
        log['suite_with_change'] = 'pass' if (rc == 0 and ok) else 'FAIL'
        log['suite_results'] = res
        good = log['demo_without_change'] == 'pass' and log['demo_with_change'] == 'FAIL' and log['suite_with_change'] == 'pass'
        print(sid, {k: v for k, v in log.items() if not k.endswith('_tail')}, 'KEEP' if good else 'REJECT')
        if good:
            dst = os.path.join(VERIF, 'seeded', sid)
            os.makedirs(dst, exist_ok=True)
            shutil.copy(patch, os.path.join(dst, 'patch.diff'))
            shutil.copy(demo, os.path.join(dst, 'demo.rs'))
            readme = os.path.join(src, 'README.md')
            needs = ''
            if os.path.exists(readme):
                shutil.copy(readme, os.path.join(dst, 'AGENT_README.md'))
            head = subprocess.run(['git', '-C', REPO, 'rev-parse', '--short', 'HEAD'], stdout=subprocess.PIPE, text=True).stdout.strip()
            meta = dict(id=sid, breaks_property=prop or sid.split('-')[0], needs_to_manifest='see AGENT_README.md',
                        confirmed_at_repo_commit=head,
                        ran=[f'git apply patch.diff; cargo test --workspace --no-fail-fast --offline -> {log["suite_with_change"]}',
                             f'cargo test --offline -p llfree-eval --test {tname} with change -> {log["demo_with_change"]}',
                             f'same without change -> {log["demo_without_change"]}'],
                        demo_test_name=tname, demo_failure_tail=log['demo_with_change_tail'][-700:])
            json.dump(meta, open(os.path.join(dst, 'meta.json'), 'w'), indent=1)
        return good
    finally:
        sh(['git', '-C', REPO, 'worktree', 'remove', '--force', wt])
        shutil.rmtree(base, ignore_errors=True)
        sh(['git', '-C', REPO, 'worktree', 'prune'])


def run(ids, tier='quick'):
    sdir = os.path.join(VERIF, 'seeded')
    rows = []
    for sid in sorted(os.listdir(sdir)):
        if ids and sid not in ids and sid.split('-')[0] not in ids:
            continue
        meta = json.load(open(os.path.join(sdir, sid, 'meta.json')))
        props = meta.get('run_checks') or [meta['breaks_property']]
        base = tempfile.mkdtemp(prefix='seedrun-')
        try:
            for item in ('core', 'eval', 'Cargo.toml', 'Cargo.lock', 'README.md'):
                s = os.path.join(REPO, item)
                if os.path.isdir(s):
                    shutil.copytree(s, os.path.join(base, item), ignore=shutil.ignore_patterns('target'))
                else:
                    shutil.copy2(s, os.path.join(base, item))
            rc, out = sh(['git', 'apply', '--unsafe-paths', '--directory=' + base, os.path.join(sdir, sid, 'patch.diff')], cwd='/')
            if rc != 0:
                rc, out = sh(f'patch -p1 -d {base} < {os.path.join(sdir, sid, "patch.diff")}')
            if rc != 0:
                rows.append((sid, 'PATCH-FAILED', out[:200]))
                continue
            ptxt = open(os.path.join(sdir, sid, 'patch.diff')).read()
            mods = sorted(set(re.findall(r'^\+\+\+ b/(?:core|eval)/src/(\w+)\.rs', ptxt, re.M)))
            env = dict(ENV, VERIF_ONLY_MODULES=','.join(mods)) if (mods and not os.environ.get('SEED_FULL')) else ENV
            # own property first; if it does not see the change, the checks of the neighbouring properties
            fallback = [q for q in ('C09', 'C02', 'C04') if q not in props] if not (meta.get('run_checks') or os.environ.get('SEED_NO_FALLBACK')) else []
            detected = False
            for p in props + fallback:
                if detected and p in fallback:
                    break
                t0 = time.time()
                rc, out = sh([os.path.join(VERIF, 'check'), p, '--tier', tier, '--repo', base], cwd=VERIF, timeout=7200, env=env)
                detected = detected or rc == 1
                vio = [l for l in out.splitlines() if l.startswith('VIOLATION') or l.startswith('FAILED-OBLIGATION')]
                verdict = {0: 'MISSED', 1: 'DETECTED', 2: 'UNDECIDED'}.get(rc, f'rc={rc}')
                rows.append((sid, p, verdict + ('' if env is ENV else ' [obligations over ' + ','.join(mods) + ']'), '%.0fs' % (time.time() - t0), ' || '.join(v[:260] for v in vio[:3]) or out[-300:].replace('\n', ' ')))
                print(rows[-1], flush=True)
        finally:
            shutil.rmtree(base, ignore_errors=True)
    json.dump(rows, open(os.path.join(VERIF, 'seeded', 'LAST_RUN.json'), 'w'), indent=1)
    write_results(rows)
    return rows


def write_results(rows):
    rp = os.path.join(VERIF, 'seeded', 'RESULTS.json')
    res = json.load(open(rp)) if os.path.exists(rp) else {}
    for r in rows:
        if len(r) >= 5:
            prev = res.get(r[0])
            if prev and prev.get('verdict', '').startswith('DETECTED') and not r[2].startswith('DETECTED'):
                continue  # keep the check that catches it
            if prev and not prev.get('verdict', '').startswith('DETECTED') and not r[2].startswith('DETECTED'):
                r = (r[0], prev['property'] + ',' + r[1], r[2], r[3], r[4])
            res[r[0]] = dict(property=r[1], verdict=r[2], time=r[3], detail=r[4])
    json.dump(res, open(rp, 'w'), indent=1)
    lines = ['# Seeded changes: which check catches which change', '',
             'Generated by `veriflib/seedtool.py run`. Each change is applied to a scratch copy of /repo (never to /repo itself) and the quick check of the',
             'property it breaks is run; `[obligations over X]` means the run was restricted to the obligations whose functions live in the changed source',
             'file(s) X (verification is modular: a change inside a function is noticed by that function\'s own obligation).', '',
             '| seed | property | verdict | time | first failed obligation / reason |', '|---|---|---|---|---|']
    for sid in sorted(res):
        r = res[sid]
        m = re.search(r'obligation=(\S+).*?checks=(.*?) @', r['detail'])
        d = (m.group(1) + ': ' + m.group(2)[:110]) if m else r['detail'][:140].replace('|', '/')
        nat = 'native replay fails' if 'native-replay=fails' in r['detail'] else ('no-failing-input-found' if 'no-failing-input-found' in r['detail'] else '')
        lines.append(f"| {sid} | {r['property']} | {r['verdict']} | {r['time']} | {d} {('(' + nat + ')') if nat else ''} |")
    notes = os.path.join(VERIF, 'seeded', 'NOTES.md')
    if os.path.exists(notes):
        lines += ['', open(notes).read()]
    open(os.path.join(VERIF, 'seeded', 'RESULTS.md'), 'w').write('\n'.join(lines) + '\n')


if __name__ == '__main__':
    if sys.argv[1] == 'harvest':
        ok = harvest(sys.argv[2], sys.argv[3], sys.argv[4] if len(sys.argv) > 4 else None)
        sys.exit(0 if ok else 1)
    elif sys.argv[1] == 'run':
        tier = 'quick'
        args = [a for a in sys.argv[2:] if not a.startswith('--')]
        if '--thorough' in sys.argv:
            tier = 'thorough'
        run(args, tier)
