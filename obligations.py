"""Registry: property -> obligations (one obligation = one Kani harness over the real code).

kind:
  complete        loop-free / constant loops fully unrolled with unwinding assertions, full symbolic input domain
  config-bounded  complete for every state/argument of the stated configuration (number of trees / slots /
                  geometry); the configuration is the only bound
  bounded         bounded stand-in (stated bound), never counted as proved
"""

OBS = []
COVER_ON = ('c23_', 'l0_tree_', 'l0_local_', 'c16_sorted_add_n', 'c19_', 'l1a_atom_', 'l1a_cas_all', 'l1a_toggle_o0', 'l1a_toggle_o7', 'l1a_toggle_o9',
            'c08_check', 'c17_zone_translation', 'l1b_put_o9_h1', 'l1b_get_at_o9_h1', 'c06_free_all_b2', 'c06_reserve_all_b2', 'c05_recover_b2')
LEVEL = {}      # property -> evidence level
TRUST = {}      # property -> extra trusted-base entries
EXPLAIN = {}    # property -> free text


def ob(name, props, fn, tier='quick', pkg='llfree', features=(), kind='complete', bound=None, assumes=(),
       timeout=600, jobs=16, claim=None, cover=None):
    module, harness = name.split('::')
    # vacuity covers cost two extra SAT calls per harness: they are kept on the cheap obligations of every
    # layer (and on every obligation in the thorough tier through assertion-reachability checks)
    if cover is None or cover is True:
        cover = any(harness.startswith(p) for p in COVER_ON)
    key = name + ('@' + ','.join(features) if features else '')
    OBS.append(dict(name=name, key=key, module=module, harness=harness, props=list(props), fn=list(fn), tier=tier, pkg=pkg,
                    features=tuple(features), kind=kind, bound=bound, assumes=list(assumes), timeout=timeout,
                    jobs=jobs, claim=claim, cover=cover))


def for_property(prop, tier):
    tiers = ('quick',) if tier == 'quick' else ('quick', 'thorough')
    return [o for o in OBS if prop in o['props'] and o['tier'] in tiers]


def properties():
    seen = []
    for o in OBS:
        for p in o['props']:
            if p not in seen:
                seen.append(p)
    return sorted(seen)


# ------------------------------------------------------------------------------------------------
# C23 row bit search
# ------------------------------------------------------------------------------------------------
for o in range(7):
    ob(f'bitfield::c23_first_zeros_aligned_o{o}', ['C23'], ['bitfield::first_zeros_aligned'],
       bound='all 2^64 row values, order %d, universally quantified witness position' % o,
       claim='None <=> no aligned all-zero block; Some((v2,off)) => off lowest aligned free block and v2 == v | mask(off)')
EXPLAIN['C23'] = ('first_zeros_aligned is loop-free; each order is one obligation over all 2^64 rows, so a discharged '
                  'obligation is a complete proof of the statement for that order.')

# ------------------------------------------------------------------------------------------------
# L0 tree word contracts (shared by C11, C13, C15, C09)
# ------------------------------------------------------------------------------------------------
L0_TREE = 'all 2^32 tree words with free <= TREE_FRAMES, all classes, n in 1..=TREE_FRAMES, every pure policy (memoised ghost policy)'
ob('trees::l0_tree_with', ['C09'], ['trees::Tree::with'], bound=L0_TREE)
ob('trees::l0_tree_steal', ['C13', 'C15', 'C09'], ['trees::Tree::steal'], bound=L0_TREE)
ob('trees::l0_tree_reserve_or_steal', ['C13', 'C15', 'C09'], ['trees::Tree::reserve_or_steal'], bound=L0_TREE)
ob('trees::l0_tree_put', ['C09', 'C04'], ['trees::Tree::put'], bound=L0_TREE)
ob('trees::l0_tree_unreserve_add', ['C09', 'C04'], ['trees::Tree::unreserve_add'], bound=L0_TREE)
ob('trees::l0_tree_sync_steal', ['C11'], ['trees::Tree::sync_steal'], bound=L0_TREE)
ob('trees::l0_tree_change', ['C15', 'C04', 'C09'], ['trees::Tree::change'], bound=L0_TREE)

L0_LOCAL = 'all 2^64 slot words (present => free <= TREE_FRAMES), all tree ids, all n'
ob('local::l0_local_with_none', ['C09'], ['local::LocalTree::with', 'local::LocalTree::none'], bound=L0_LOCAL)
ob('local::l0_local_get', ['C09', 'C04'], ['local::LocalTree::get'], bound=L0_LOCAL)
ob('local::l0_local_put', ['C09', 'C04'], ['local::LocalTree::put'], bound=L0_LOCAL)
ob('local::l0_local_set_start', ['C09'], ['local::LocalTree::set_start'], bound=L0_LOCAL)
ob('util::l0_spin_wait', ['C21'], ['util::spin_wait'], bound='n <= RETRIES(4), any condition trace')

# C16
for n in range(1, 9):
    ob(f'util::c16_sorted_add_n{n}', ['C16'], ['util::SortedBuffer::add'],
       bound=f'capacity {n}, u8 keys, ANY buffer state satisfying the sorted-prefix invariant (inductive step => every insertion sequence)')
ob('util::c16_sorted_iter_rev_descending', ['C16'], ['util::SortedBuffer::iter'], bound='capacity 4, any sorted-prefix buffer')

# C19 (eval crate)
ob('classes::c19_count_to_local', ['C19'], ['classes::Count::to_local', 'classes::Count::to_count'], pkg='llfree-eval',
   bound='every Count kind; core, pid over all usize; cores >= 1 over all usize')
for n in range(1, 5):
    ob(f'classes::c19_request_n{n}', ['C19'], ['classes::ClassingConfig::request', 'classes::ClassConfig::matches', 'classes::GfpMatch::matches'],
       pkg='llfree-eval', timeout=900,
       bound=f'{n} classes with distinct ids < 8, every Count kind, any order window, GFP matcher of depth <= 2 over 4 flags, all order/core/cores>=1/pid/gfp values')

# ------------------------------------------------------------------------------------------------
# L1a: atomics, bitfield (sequential contracts) and the zeros lemmas
# ------------------------------------------------------------------------------------------------
SEQ = 'sequential (no interference)'
for t in ('u16', 'u32', 'u64'):
    ob(f'atomic::l1a_atom_try_update_{t}', ['C21', 'C02', 'C12'], ['atomic::Atom::try_update'], bound=f'all {t} values, any closure result; unwinding bound = one retry, unwinding assertion on')
for t in ('u32', 'u64'):
    ob(f'atomic::l1a_atom_update_{t}', ['C21', 'C02'], ['atomic::Atom::update'], bound=f'all {t} values; unwinding bound = one retry')
ob('atomic::l1a_atom_cas_swap', ['C02', 'C12'], ['atomic::Atom::compare_exchange', 'atomic::Atom::swap', 'atomic::Atom::fetch_or', 'atomic::Atom::fetch_and'], bound='all u64 triples')
for n in (1, 2, 4, 8):
    ob(f'atomic::l1a_cas_all_n{n}', ['C01', 'C02', 'C12'], ['atomic::AtomicSlice::compare_exchange_all'], bound=f'slice of {n} entries, all u16 contents, ' + SEQ)
BF = 'all 2^512 bitfield states, every aligned position, ' + SEQ
for o in range(10):
    ob(f'bitfield::l1a_toggle_o{o}', ['C01', 'C02'], ['bitfield::Bitfield::toggle'] + (['bitfield::Bitfield::toggle_int'] if 3 <= o <= 6 else []), bound=BF + f', order {o}, both directions')
    ob(f'bitfield::l1a_set_first_zeros_o{o}', ['C01', 'C12'], ['bitfield::Bitfield::set_first_zeros', 'bitfield::first_zeros_aligned'] + (['bitfield::Bitfield::set_first_zero_rows'] if o > 6 else []),
       bound=BF + f', order {o}, every start row, universally quantified witness block', timeout=900)
    ob(f'bitfield::l1a_zeros_lemmas_o{o}', ['C02', 'C04', 'C05'], tier='quick' if o in (0, 3, 5, 7, 9) else 'thorough', fn= ['(lemma) popcount facts Z1-Z3 used as ghost facts by lower contracts'], bound=BF + f', order {o}', timeout=900, cover=False)
for o in (0, 3, 6, 7, 9):
    ob(f'bitfield::l1a_is_zero_o{o}', ['C04', 'C10'], ['bitfield::Bitfield::is_zero'], bound=BF + f', order {o}', cover=False)
ob('bitfield::l1a_set_range', ['C06'], ['bitfield::Bitfield::set'], bound='all bitfield states, every range inside the bitfield', cover=False)
ob('bitfield::l1a_fill_count_zeros', ['C05', 'C06'], ['bitfield::Bitfield::fill', 'bitfield::Bitfield::count_zeros'], bound='all bitfield states', cover=False)
ob('lower::l0_huge_entry', ['C02', 'C09'], ['lower::HugeEntry::new_huge', 'lower::HugeEntry::new_with', 'lower::HugeEntry::dec', 'lower::HugeEntry::inc', 'lower::HugeEntry::huge', 'lower::HugeEntry::free'],
   bound='all well-formed u16 entries, n in 1..=512', cover=False)
ob('lower::l0_lower_metadata', ['C18'], ['lower::Metadata::new', 'lower::Lower::metadata_size', 'util::size_of_slice'], bound='frames <= 2^44', cover=False)

# ------------------------------------------------------------------------------------------------
# L1b: Lower::put / get_at / get, one obligation per (order, huge index); default geometry, one tree
# ------------------------------------------------------------------------------------------------
LOWER_ASSUMES = ['bitfield::Bitfield::toggle (l1a_toggle_o*)', 'bitfield::Bitfield::set_first_zeros (l1a_set_first_zeros_o*)',
                 'atomic::Atom::try_update / update sequential contract (l1a_atom_*)', 'ghost zeros lemmas Z1-Z3 (l1a_zeros_lemmas_o*)']
LB = 'config-bounded: 1 tree of 4 huge frames (2048 frames, all 2^2048 bit states x all well-formed entries under wf_lower), block anywhere in huge frame %d, order %d'
for fn, pre, props in (('put', 'l1b_put', ['C02', 'C01', 'C03']), ('get_at', 'l1b_get_at', ['C02', 'C01', 'C10']), ('get', 'l1b_get', ['C12', 'C02', 'C01'])):
    for o in range(12):
        hs = [h for h in range(4) if o < 9 or h % (1 << (o - 9)) == 0]
        quick_h = 1 if 1 in hs else hs[-1]
        for h in hs:
            fns = {'put': ['lower::Lower::put', 'lower::Lower::put_small', 'lower::Lower::partial_put_huge'],
                   'get_at': ['lower::Lower::get', 'lower::Lower::get_at'], 'get': ['lower::Lower::get']}[fn]
            quick_orders = {'put': (0, 5, 9), 'get_at': (0, 7, 9), 'get': (0, 3, 9)}[fn]
            ob(f'lower::{pre}_o{o}_h{h}', props, fns, tier='quick' if (h == quick_h and o in quick_orders) else 'thorough', kind='config-bounded',
               bound=LB % (h, o), assumes=LOWER_ASSUMES, timeout=900, cover=(h == quick_h and o in (0, 9)))

# ------------------------------------------------------------------------------------------------
# C06 / C05 / C09: initialisation and recovery of the lower allocator, every frame count
# ------------------------------------------------------------------------------------------------
ob('bitfield::l1a_zeros_lemma_prefix', ['C06', 'C05'], ['(lemma) Z4: a prefix pattern of k zero bits has k zeros'], bound='every k <= 512', cover=False)
for b in range(1, 5):
    FB = f'every frame count with {b} bitfield(s): ({(b-1)*512}, {b*512}], any previous metadata contents'
    ob(f'lower::c06_free_all_b{b}', ['C06', 'C18'], ['lower::Lower::free_all'], kind='config-bounded', bound=FB,
       assumes=['bitfield::Bitfield::fill (l1a_fill_count_zeros)', 'bitfield::Bitfield::set (l1a_set_range)'], cover=(b == 2))
    ob(f'lower::c06_reserve_all_b{b}', ['C06', 'C18'], ['lower::Lower::reserve_all'], kind='config-bounded', bound=FB,
       assumes=['bitfield::Bitfield::fill (l1a_fill_count_zeros)'], cover=(b == 2))
    ob(f'lower::c05_recover_b{b}', ['C05', 'C09'], ['lower::Lower::recover'], kind='config-bounded',
       bound=FB + ' (ANY persistent state: no invariant assumed except bits beyond the range set)',
       assumes=['bitfield::Bitfield::count_zeros (l1a_fill_count_zeros)', 'ghost zeros lemma Z2 (l1a_zeros_lemmas_o*)'], cover=(b == 2))
ob('lower::c09_init_zero_frames', ['C09', 'C06'], ['lower::Lower::free_all', 'lower::Lower::reserve_all', 'lower::Lower::recover', 'lower::Lower::stats'],
   bound='frame count 0, every initialisation mode', cover=False)

for n in (2, 3):
    ob(f'trees::c16_search_best_n{n}', ['C16'], ['trees::Trees::search_best', 'util::SortedBuffer::add', 'util::SortedBuffer::iter'], kind='config-bounded',
       bound=f'4 trees, capacity {n}, every start, every rating assignment (Match(any)/Demote/Steal/Invalid per tree), every reserved-flag pattern',
       assumes=['std <[T]>::rotate_right / rotate_left(1) (assumed contract of the standard library)'], timeout=900)

# ------------------------------------------------------------------------------------------------
# L2: allocator level (LLFree), lower allocator by contract over the ghost view
# ------------------------------------------------------------------------------------------------
L2B = 'config-bounded: 2 trees, classes 0..%d with one slot each%s; ALL tree words / slot words / lower free counts under invariant I; every kind-policy (symbolic 8x8 kind table, 3-level Match priority)'
L2_ASSUMES = ['lower::Lower::put/get/stats_at/stats by contract over the ghost view (checked by l1b_* obligations)', 'atomic::Atom::try_update / update sequential contract (l1a_atom_*)',
              'policy precondition: kind(c, c) == Match for every class c']
ob('llfree::c08_check_full_domain', ['C08', 'C09'], ['llfree::LLFree::check'], bound='frame, order over ALL usize values, classes 0..7, 2 configured classes, 2 trees', cover=True)
for name, nc, zs in (('2classes', 2, ''), ('3classes_zero_slot', 3, ', last class WITHOUT slots')):
    ob(f'llfree::l2_put_{name}', ['C02', 'C04', 'C08', 'C09'], ['llfree::LLFree::put', 'local::Locals::put', 'trees::Trees::put'], kind='config-bounded',
       bound=L2B % (nc - 1, zs) + '; frame over all usize, every order', assumes=L2_ASSUMES)
    ob(f'llfree::l2_drain_{name}', ['C10', 'C09', 'C04'], ['llfree::LLFree::drain', 'local::Locals::drain', 'trees::Trees::unreserve'], kind='config-bounded',
       bound=L2B % (nc - 1, zs), assumes=L2_ASSUMES, cover=False)
    ob(f'llfree::l2_tree_stats_{name}', ['C14', 'C04'], ['llfree::LLFree::tree_stats', 'trees::Trees::stats', 'local::Locals::stats'], kind='config-bounded',
       bound=L2B % (nc - 1, zs) + '; states where no reservation holds free frames', assumes=L2_ASSUMES, cover=False)
    ob(f'llfree::l2_tree_stats_reserved_{name}', ['C14'], ['llfree::LLFree::tree_stats', 'trees::Trees::stats', 'local::Locals::stats'], kind='config-bounded',
       bound=L2B % (nc - 1, zs) + '; states where a reservation holds free frames', assumes=L2_ASSUMES, cover=False)
ob('llfree::l2_validate_2classes', ['C04'], ['llfree::LLFree::validate'], kind='config-bounded', bound=L2B % (1, '') + '; no tree offline', assumes=L2_ASSUMES, cover=False, timeout=1200, tier='thorough')
ob('llfree::l2_change_tree_2classes', ['C15', 'C09'], ['llfree::LLFree::change_tree', 'trees::Trees::change', 'trees::Trees::change_at', 'trees::Trees::search'], kind='config-bounded',
   bound=L2B % (1, '') + '; every matcher/change, tree id < number of trees', assumes=L2_ASSUMES)

# L2 allocation paths, verified modularly against the generic helper contract G
G_ASSUMES = L2_ASSUMES + ['generic helper contract G for inner allocation helpers (each checked by its own l2_* obligation)',
                          'trees::Trees::search_best by contract (l1b_search_best_result_n3, c16_search_best_n*)',
                          'policy precondition: demotion composes (kind(a,b)=Demote and kind(b,c) in {Match,Demote} => kind(a,c) in {Match,Demote})']
PATHS = [
    ('l2_steal_global_2c', ['llfree::LLFree::steal_global', 'trees::Trees::steal'], 'quick'),
    ('l2_steal_global_at_2c', ['llfree::LLFree::steal_global'], 'quick'),
    ('l2_steal_global_3c_zero_slot', ['llfree::LLFree::steal_global'], 'thorough'),
    ('l2_reserve_or_steal_2c', ['llfree::LLFree::reserve_or_steal', 'trees::Trees::reserve_or_steal', 'trees::Trees::unreserve', 'local::Locals::swap'], 'quick'),
    ('l2_reserve_or_steal_3c_zero_slot', ['llfree::LLFree::reserve_or_steal'], 'quick'),
    ('l2_get_local_2c', ['llfree::LLFree::get_local', 'local::Locals::get', 'trees::Trees::sync', 'local::Locals::set_start'], 'quick'),
    ('l2_get_local_at_2c', ['llfree::LLFree::get_local'], 'quick'),
    ('l2_steal_local_2c', ['llfree::LLFree::steal_local', 'local::Locals::steal_any'], 'thorough'),
    ('l2_steal_local_at_3c_zero_slot', ['llfree::LLFree::steal_local', 'local::Locals::steal_any'], 'thorough'),
    ('l2_demote_local_2c', ['llfree::LLFree::demote_local', 'local::Locals::demote_any'], 'thorough'),
    ('l2_demote_local_at_3c_zero_slot', ['llfree::LLFree::demote_local', 'local::Locals::demote_any'], 'thorough'),
    ('l2_search_and_reserve_2c', ['llfree::LLFree::search_and_reserve'], 'thorough'),
    ('l2_search_and_reserve_3c_zero_slot', ['llfree::LLFree::search_and_reserve'], 'thorough'),
    ('l2_get_at_2c', ['llfree::LLFree::get_at'], 'thorough'),
    ('l2_get_2c', ['llfree::LLFree::get'], 'thorough'),
    ('l2_get_targeted_2c', ['llfree::LLFree::get'], 'quick'),
    ('l2_get_3c_zero_slot', ['llfree::LLFree::get'], 'thorough'),
]
for name, fns, tier in PATHS:
    nc = 3 if '3c' in name else 2
    ob(f'llfree::{name}', ['C09', 'C13', 'C15', 'C02', 'C04'] + (['C11', 'C21'] if 'get_local' in name else []) + (['C10'] if name in ('l2_get_at_2c', 'l2_get_targeted_2c', 'l2_steal_global_at_2c') else []), fns, tier=tier, kind='config-bounded',
       bound=L2B % (nc - 1, ', last class WITHOUT slots' if '3c' in name else '') + '; every order, class, slot choice' + ('; every target block' if '_at' in name or 'targeted' in name else ''),
       assumes=G_ASSUMES, timeout=1500, cover=False)
ob('trees::l1b_search_best_result_n3', ['C09', 'C13', 'C16'], ['trees::Trees::search_best'], kind='config-bounded', tier='thorough',
   bound='4 trees, capacity 3, every rating, every access outcome sequence (Memory / Ok / other error)', timeout=1200, cover=False)

# C04 lower queries, C07, C08 construction, C17 wrappers
for name, fns in (('c04_lower_stats', ['lower::Lower::stats']), ('c04_lower_stats_at_h1', ['lower::Lower::stats_at']),
                  ('c04_lower_is_free_o0_h1', ['lower::Lower::is_free']), ('c04_lower_is_free_o4_h2', ['lower::Lower::is_free']),
                  ('c04_lower_is_free_o7_h0', ['lower::Lower::is_free']), ('c04_lower_is_free_o9_h3', ['lower::Lower::is_free']),
                  ('c04_lower_is_free_o10_h2', ['lower::Lower::is_free'])):
    ob(f'lower::{name}', ['C04', 'C10'], fns, kind='config-bounded', bound='1 tree (2048 frames), all bit states and entries under wf_lower, ghost zeros with lemma instances',
       assumes=['ghost zeros lemmas Z2/Z3 (l1a_zeros_lemmas_o*)'], cover=False)
ob('llfree::c08_new_rejects_bad_metadata', ['C08', 'C18'], ['llfree::LLFree::new', 'llfree::MetaData::valid', 'lower::Lower::new', 'local::Locals::new', 'trees::Trees::new'], kind='config-bounded',
   bound='frames = TREE_FRAMES+5, 2 classes; three buffers carved at ANY offsets/lengths out of one 2 KiB array (so: every shortfall, every misalignment, every overlap)')
ob('llfree::c07_init_none_keeps_buffers', ['C07', 'C18'], ['llfree::LLFree::new', 'llfree::LLFree::metadata', 'lower::Lower::new', 'lower::Lower::metadata', 'local::Locals::new', 'local::Locals::metadata', 'trees::Trees::new', 'trees::Trees::metadata'],
   kind='config-bounded', bound='frames = TREE_FRAMES+5, 2 classes, ARBITRARY buffer contents (2 KiB symbolic)', cover=False)
ob('wrapper::c17_zone_translation', ['C17', 'C08'], ['wrapper::ZoneAlloc::get', 'wrapper::ZoneAlloc::put', 'wrapper::ZoneAlloc::stats_at'],
   bound='every offset <= 2^50, every frame, EVERY inner allocator behaviour (contract stub with arbitrary results)')
ob('wrapper::c17_zone_create', ['C17'], ['wrapper::ZoneAlloc::create'], bound='every offset, frames <= 2^30', cover=False)
# initialisation establishes the invariant the sequential history induction starts from
for o in OBS:
    if o['name'].startswith('lower::c06_') or o['name'] == 'bitfield::l1a_zeros_lemma_prefix':
        for p in ('C02', 'C04'):
            if p not in o['props']:
                o['props'].append(p)

# ------------------------------------------------------------------------------------------------
# Rely/guarantee obligations: ALL interleavings with any number of other threads (bitfield level)
# ------------------------------------------------------------------------------------------------
RG_B = ('all 2^512 bitfield states, any set of bits already held by this thread, an environment that may overwrite the accessed word before EVERY atomic '
        'access (any value keeping this thread\'s bits), order %d; sequentially consistent atomics; try_update: one interference between load and CAS')
RG_ASSUMES = ['rely: other threads never change a bit this thread owns (follows from every thread meeting the guarantee: DESIGN.md 4.3)',
              'std fetch_update loop modelled with one interfering write between load and CAS; compare_exchange_weak never fails spuriously']
for o in range(10):
    ob(f'bitfield::rg_set_first_zeros_o{o}', ['C01', 'C03', 'C21'], ['bitfield::Bitfield::set_first_zeros'] + (['bitfield::Bitfield::set_first_zero_rows'] if o > 6 else []),
       tier='quick' if o in (7, 8) else 'thorough', bound=RG_B % o, assumes=RG_ASSUMES, timeout=1200, cover=False)
for o in (0, 2, 3, 4, 5, 6, 7, 8, 9):
    ob(f'bitfield::rg_toggle_alloc_o{o}', ['C01', 'C03', 'C21'], ['bitfield::Bitfield::toggle'], tier='quick' if o in (0, 4, 8) else 'thorough', bound=RG_B % o, assumes=RG_ASSUMES, timeout=1200, cover=False)
    ob(f'bitfield::rg_toggle_free_o{o}', ['C01', 'C03', 'C21'], ['bitfield::Bitfield::toggle'], tier='quick' if o in (0, 3, 7) else 'thorough', bound=RG_B % o + '; the freed block is held by this thread',
       assumes=RG_ASSUMES, timeout=1200, cover=False)
for n in (1, 2, 4):
    for kind in ('alloc', 'free'):
        ob(f'atomic::rg_cas_all_{kind}_n{n}', ['C01', 'C03', 'C21'], ['atomic::AtomicSlice::compare_exchange_all'], tier='quick' if n in (1, 4) else 'thorough',
           bound=f'table of 4 entries with any contents, block of {n} whole huge frame(s), any entries already owned, an environment that may overwrite any entry this thread does not own before every access',
           assumes=['rely: other threads never change an entry this thread owns as a whole huge frame (they meet the same guarantee)'], timeout=900, cover=False)

# C05 crash points inside one call (real bitfield bodies), construction establishes I
CRASH = [('put', [(0, 1), (3, 1), (6, 1), (7, 1), (8, 1), (9, 1), (10, 2)]), ('get_at', [(0, 1), (4, 1), (7, 1), (8, 1), (9, 1), (10, 2)]), ('get', [(0, 1), (7, 1), (9, 1)])]
CRASH_QUICK = {('put', 0), ('put', 9), ('get_at', 0), ('get_at', 9)}
for op, lst in CRASH:
    for o, h in lst:
        ob(f'lower::c05_crash_{op}_o{o}_h{h}', ['C05'], [f'lower::Lower::{op if op != "get_at" else "get_at"}', 'bitfield::Bitfield::toggle', 'bitfield::Bitfield::set_first_zeros'],
           tier='quick' if (op, o) in CRASH_QUICK else 'thorough', kind='config-bounded',
           bound=f'1 tree, all states under wf_lower, order {o}, huge frame {h}; crash after ANY number K of the call\'s atomic writes (K symbolic); universally quantified witness frame outside the block',
           assumes=['atomic::Atom::try_update sequential contract (l1a_atom_*)', 'persistence order = program order of atomic writes (no cache-line model)'], timeout=1500, cover=False)
for _n in ('l2_new_establishes_invariant', 'l2_new_establishes_invariant_partial'):
  ob('llfree::' + _n, ['C05', 'C06', 'C04', 'C09'], ['llfree::LLFree::new', 'trees::Trees::new', 'local::Locals::new'], kind='config-bounded',
   bound='two trees (whole / partial last tree: frames = 2*TREE_FRAMES / TREE_FRAMES+5), FreeAll / AllocAll / Recover, any lower free counts; volatile buffers zeroed',
   assumes=['lower::Lower::new by contract (c06_*, c05_recover_*)', 'lower::Lower::stats_at/stats by contract (c04_lower_*)'], cover=False)
# C10 / C11 completeness, monolithic over the configuration
ob('llfree::c10_drained_targeted_2c', ['C10'], ['llfree::LLFree::get', 'llfree::LLFree::get_at', 'llfree::LLFree::steal_global'],
   tier='thorough', kind='config-bounded', bound=L2B % (1, '') + '; drained, never-Invalid policy, every order and target block', assumes=L2_ASSUMES[:2], timeout=3000, cover=False)

# (c10_drained_base_order_2c and c11_single_slot_base_order exist as harnesses but exceed 50 min / the memory of this machine: not registered)
RGL = ('1 tree, any bit states / entries, huge frame 1, order %d; environment may overwrite the accessed row or the counter entry before every atomic access within the rely '
       '(owned bits kept; counter + units of this thread <= 512, no marker while it holds units)')
RGL_ASSUMES = RG_ASSUMES + ['rely on the counter: follows from counter == zeros - (reserved + pending units of all threads), which every thread\'s guarantee maintains (DESIGN.md 4.3, paper argument)']
for o in (0, 3, 6, 7, 8):
    ob(f'lower::rg_lower_get_at_o{o}_h1', ['C01', 'C03', 'C05', 'C21'], ['lower::Lower::get_at', 'lower::Lower::get', 'bitfield::Bitfield::toggle'], tier='quick' if o in (0,) else 'thorough',
       kind='config-bounded', bound=RGL % o, assumes=RGL_ASSUMES, timeout=2400, cover=False)
    ob(f'lower::rg_lower_put_o{o}_h1', ['C01', 'C03', 'C05', 'C21'], ['lower::Lower::put', 'lower::Lower::put_small', 'bitfield::Bitfield::toggle'], tier='quick' if o in (3,) else 'thorough',
       kind='config-bounded', bound=RGL % o + '; the freed block is held by this thread', assumes=RGL_ASSUMES, timeout=2400, cover=False)
ob('lower::c03_partial_put_peer_stalled', ['C03'], ['lower::Lower::partial_put_huge', 'util::spin_wait'], kind='config-bounded',
   bound='the intermediate state of a concurrent split: marker set, bitfield all ones (peer stalled); any frame of the huge frame', cover=False)
for o, h in ((0, 1), (3, 2), (7, 0), (8, 3)):
    ob(f'lower::rg_lower_get_o{o}_h{h}', ['C01', 'C03', 'C05', 'C21'], ['lower::Lower::get'], tier='quick' if o == 3 else 'thorough', kind='config-bounded',
       bound=f'1 tree (4 huge frames), any bit states / entries, any bits already owned anywhere in the tree, order {o}, hint in huge frame {h}; environment on all rows and all four counter entries',
       assumes=RGL_ASSUMES + ['bitfield::Bitfield::set_first_zeros by its rely/guarantee contract (rg_set_first_zeros_o*)'], timeout=2400, cover=False)

# ------------------------------------------------------------------------------------------------
# Other compile-time geometries (thorough tier): huge frames per tree 1 / 2 / 8
# ------------------------------------------------------------------------------------------------
for th, feat in ((1, 'tree_huge_1'), (2, 'tree_huge_2'), (8, 'tree_huge_8')):
    tree_order = 9 + {1: 0, 2: 1, 8: 3}[th]
    for fn, pre, props in (('put', 'l1b_put', ['C02', 'C01']), ('get_at', 'l1b_get_at', ['C02', 'C01']), ('get', 'l1b_get', ['C12', 'C02', 'C01'])):
        for o in range(tree_order + 1):
            hs = [h for h in range(th) if o < 9 or h % (1 << (o - 9)) == 0]
            if th == 8:
                hs = [h for h in hs if h in (0, 3, 4)] or hs[:1]
            for h in hs:
                ob(f'lower::{pre}_o{o}_h{h}@{feat}'.replace('@' + feat, ''), props, ['lower::Lower::' + ('get' if fn != 'put' else 'put')], tier='thorough', features=(feat,), kind='config-bounded',
                   bound=f'geometry {feat}: 1 tree of {th} huge frame(s), all states under wf_lower, order {o}, huge frame {h}', assumes=LOWER_ASSUMES, timeout=1800, cover=False)
    for b in range(1, th + 1):
        FB = f'geometry {feat}: every frame count with {b} bitfield(s)'
        ob(f'lower::c06_free_all_b{b}', ['C06', 'C02'], ['lower::Lower::free_all'], tier='thorough', features=(feat,), kind='config-bounded', bound=FB, cover=False)
        ob(f'lower::c06_reserve_all_b{b}', ['C06', 'C02'], ['lower::Lower::reserve_all'], tier='thorough', features=(feat,), kind='config-bounded', bound=FB, cover=False)
        ob(f'lower::c05_recover_b{b}', ['C05', 'C09'], ['lower::Lower::recover'], tier='thorough', features=(feat,), kind='config-bounded', bound=FB + ' (any persistent state)', cover=False)

# ------------------------------------------------------------------------------------------------
# Locals slot-level contracts; C10 / C11 completeness (modular, contract C0)
# ------------------------------------------------------------------------------------------------
ob('local::l1b_locals_steal_any', ['C09', 'C13'], ['local::Locals::steal_any', 'local::Locals::get'], kind='config-bounded', timeout=1500,
   bound='classes 0,1,2 with (1,1,0) slots (one class WITHOUT slots), any slot words, every kind-policy, any requester / index / tree / amount', cover=False)
ob('local::l1b_locals_steal_any_2_1_0', ['C09', 'C13', 'C18'], ['local::Locals::steal_any'], tier='thorough', kind='config-bounded', timeout=1500,
   bound='classes with (2,1,0) slots (different slot counts), any slot words', cover=False)
ob('local::l1b_locals_demote_any', ['C09', 'C13', 'C18'], ['local::Locals::demote_any'], tier='thorough', kind='config-bounded', timeout=1500, bound='classes with (1,1,0) slots', cover=False)
ob('local::l1b_locals_demote_any_0_1_2', ['C09'], ['local::Locals::demote_any'], kind='config-bounded', timeout=1500, bound='classes with (0,1,2) slots (requesting class may have no slots)', cover=False)
ob('local::l1b_locals_get_put_swap', ['C09', 'C04', 'C18'], ['local::Locals::get', 'local::Locals::put'], kind='config-bounded', bound='classes with (1,2,0) slots, any slot words', cover=False)
C0_ASSUMES = G_ASSUMES + ['contract C0 of the inner helpers (each checked by its own c0_* obligation)',
                          'trees::Trees::search_best visits every acceptable tree (c16_search_best_n*, l1b_search_best_result_n3; tree array not longer than the smallest buffer)']
for name, fns, props in (('c0_steal_global_2c', ['llfree::LLFree::steal_global'], ['C10']), ('c0_reserve_or_steal_2c', ['llfree::LLFree::reserve_or_steal'], ['C10', 'C11']),
                         ('c0_get_local_2c', ['llfree::LLFree::get_local', 'trees::Trees::sync'], ['C10', 'C11']), ('c0_get_local_1c', ['llfree::LLFree::get_local', 'trees::Trees::sync'], ['C11']),
                         ('c0_search_and_reserve_2c', ['llfree::LLFree::search_and_reserve'], ['C10']), ('c0_search_and_reserve_1c', ['llfree::LLFree::search_and_reserve'], ['C11']),
                         ('c10_drained_base_order_modular_2c', ['llfree::LLFree::get'], ['C10']), ('c11_single_slot_modular', ['llfree::LLFree::get'], ['C11'])):
    ob('llfree::' + name, props, fns, kind='config-bounded', timeout=1500, assumes=C0_ASSUMES,
       bound='2 trees, ' + ('ONE class with one slot' if '1c' in name or 'c11' in name else 'classes 0..1 with one slot each') + '; all states under invariant I; base order, no target; every kind-policy'
             + ('; drained, never-Invalid policy' if 'c10' in name else ''), cover=(name in ('c10_drained_base_order_modular_2c', 'c11_single_slot_modular')))
COVER_ON = COVER_ON + ('c10_drained_base_order_modular', 'c11_single_slot_modular')
for _o in OBS:
    if _o['harness'] in ('c10_drained_base_order_modular_2c', 'c11_single_slot_modular'):
        _o['cover'] = True

# non-contiguous class ids, NvmAlloc, metadata sizes, more slot configurations
ob('llfree::l2_tree_stats_gap_classes', ['C14', 'C04'], ['llfree::LLFree::tree_stats', 'local::Locals::stats'], kind='config-bounded',
   bound='2 trees, classes 0 and 2 configured (class 1 NOT configured: non-contiguous ids), all states under invariant I', assumes=L2_ASSUMES, cover=False)
ob('wrapper::c17_nvm_create_layout', ['C17', 'C18'], ['wrapper::NvmAlloc::create', 'wrapper::ZoneAlloc::create'], kind='config-bounded',
   bound='zone of 8 frames (32 KiB) at the address CBMC assigns (8 MiB-aligned case explored), inner allocator = recording stub with the real lower-metadata size')
ob('wrapper::c17_nvm_recover_header', ['C17'], ['wrapper::NvmAlloc::create'], kind='config-bounded', bound='zone of 8 frames, ANY header contents (magic, frame count)')
ob('trees::l0_trees_metadata_size', ['C18', 'C08'], ['trees::Trees::metadata_size'], bound='frames <= 2^44, against an independent ceil-division spec', cover=False)
ob('local::l0_locals_metadata_size', ['C18', 'C08'], ['local::Locals::metadata_size'], bound='three classes with up to 64 slots each', cover=False)
ob('local::l1b_locals_steal_any_3_1_0', ['C18'], ['local::Locals::steal_any'], tier='quick', kind='config-bounded', timeout=1500,
   bound='classes with (3,1,0) slots (requester slot index beyond the slot count of the target class)', cover=False)
ob('local::l1b_locals_demote_any_3_0_1', ['C09', 'C13', 'C18'], ['local::Locals::demote_any'], tier='thorough', kind='config-bounded', timeout=1500, bound='classes with (3,0,1) slots', cover=False)
OBS[:] = [o for o in OBS if o['harness'] != 'l1b_locals_steal_any_2_1_0']
COVER_ON = COVER_ON + ('c17_nvm_',)
for _o in OBS:
    if _o['harness'].startswith('c17_nvm_'):
        _o['cover'] = True
ob('lower::l1b_lower_new_dispatch', ['C05', 'C06', 'C08', 'C18'], ['lower::Lower::new'], bound='frames = 600 (2 bitfields, 1 table), every init mode, every buffer length <= 512', cover=False,
   assumes=['lower::Lower::free_all / reserve_all / recover by recording stubs (their contracts: c06_*, c05_recover_*)'])

# two-tree lower configuration (feature verif_nt2): recovery and initialisation index bitfields per tree
for b in (5, 6, 8):
    ob(f'lower::c05_recover_b{b}', ['C05'], ['lower::Lower::recover'], features=('verif_nt2',), kind='config-bounded',
       bound=f'TWO trees: every frame count with {b} bitfields (({(b-1)*512}, {b*512}]), any persistent state', cover=False,
       assumes=['bitfield::Bitfield::count_zeros (l1a_fill_count_zeros)', 'ghost zeros lemma Z2 (l1a_zeros_lemmas_o*)'])
for name, b in (('c06_free_all', 5), ('c06_free_all', 8), ('c06_reserve_all', 6)):
    ob(f'lower::{name}_b{b}', ['C06'], ['lower::Lower::' + name[4:]], features=('verif_nt2',), kind='config-bounded',
       bound=f'TWO trees: every frame count with {b} bitfields', cover=False, assumes=['bitfield::Bitfield::fill / set by contract (l1a_fill_count_zeros, l1a_set_range)'])

# Slot words (`Locals`) under interference: the first rely/guarantee step above the lower allocator
# (environment `atomic::verif_contracts::senv`). `rg_locals_demote_any*` and `rg_locals_steal_any` exist in
# contracts/core/local.rs but are NOT registered: symbolic execution alone needs > 9 minutes / the 15 minute
# limit with the five atomic stubs over three classes (measured), so they are not counted anywhere.
ob('local::rg_locals_drain', ['C03', 'C21'], ['local::Locals::drain'], kind='config-bounded', timeout=900,
   bound='classes with (1,2,0) slots, any slot words, any number of other threads, at most 2 interfering writes (symbolic positions)',
   assumes=['sequentially consistent atomics', 'slot-word rely: other threads write only well-formed slot words'], cover=False)
ob('local::rg_locals_get_put_swap', ['C03', 'C21'], ['local::Locals::get', 'local::Locals::put', 'local::Locals::swap'], kind='config-bounded', timeout=900,
   bound='classes with (1,2,0) slots, any slot words, any number of other threads, at most 2 interfering writes (symbolic positions)',
   assumes=['sequentially consistent atomics', 'slot-word rely: other threads write only well-formed slot words'], cover=False)
