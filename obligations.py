"""Registry: property -> obligations (one obligation = one Kani harness over the real code).

kind:
  complete        loop-free / constant loops fully unrolled with unwinding assertions, full symbolic input domain
  config-bounded  complete for every state/argument of the stated configuration (number of trees / slots /
                  geometry); the configuration is the only bound
  bounded         bounded stand-in (stated bound), never counted as proved
"""

OBS = []
LEVEL = {}      # property -> evidence level
TRUST = {}      # property -> extra trusted-base entries
EXPLAIN = {}    # property -> free text


def ob(name, props, fn, tier='quick', pkg='llfree', features=(), kind='complete', bound=None, assumes=(),
       timeout=600, jobs=16, claim=None):
    module, harness = name.split('::')
    OBS.append(dict(name=name, module=module, harness=harness, props=list(props), fn=list(fn), tier=tier, pkg=pkg,
                    features=tuple(features), kind=kind, bound=bound, assumes=list(assumes), timeout=timeout,
                    jobs=jobs, claim=claim))


def for_property(prop, tier):
    tiers = ('quick',) if tier == 'quick' else ('quick', 'thorough')
    return [o for o in OBS if prop in o['props'] and o['tier'] in tiers]


def properties():
    seen = []
    for o in OBS:
        for p in o['props']:
            if p not in seen:
                seen.append(p)
    return sorted(seen)


# ------------------------------------------------------------------------------------------------
# C23 row bit search
# ------------------------------------------------------------------------------------------------
for o in range(7):
    ob(f'bitfield::c23_first_zeros_aligned_o{o}', ['C23'], ['bitfield::first_zeros_aligned'],
       bound='all 2^64 row values, order %d, universally quantified witness position' % o,
       claim='None <=> no aligned all-zero block; Some((v2,off)) => off lowest aligned free block and v2 == v | mask(off)')
EXPLAIN['C23'] = ('first_zeros_aligned is loop-free; each order is one obligation over all 2^64 rows, so a discharged '
                  'obligation is a complete proof of the statement for that order.')
