"""Registry: property -> obligations (one obligation = one Kani harness over the real code).

kind:
  complete        loop-free / constant loops fully unrolled with unwinding assertions, full symbolic input domain
  config-bounded  complete for every state/argument of the stated configuration (number of trees / slots /
                  geometry); the configuration is the only bound
  bounded         bounded stand-in (stated bound), never counted as proved
"""

OBS = []
LEVEL = {}      # property -> evidence level
TRUST = {}      # property -> extra trusted-base entries
EXPLAIN = {}    # property -> free text


def ob(name, props, fn, tier='quick', pkg='llfree', features=(), kind='complete', bound=None, assumes=(),
       timeout=600, jobs=16, claim=None, cover=True):
    module, harness = name.split('::')
    OBS.append(dict(name=name, module=module, harness=harness, props=list(props), fn=list(fn), tier=tier, pkg=pkg,
                    features=tuple(features), kind=kind, bound=bound, assumes=list(assumes), timeout=timeout,
                    jobs=jobs, claim=claim, cover=cover))


def for_property(prop, tier):
    tiers = ('quick',) if tier == 'quick' else ('quick', 'thorough')
    return [o for o in OBS if prop in o['props'] and o['tier'] in tiers]


def properties():
    seen = []
    for o in OBS:
        for p in o['props']:
            if p not in seen:
                seen.append(p)
    return sorted(seen)


# ------------------------------------------------------------------------------------------------
# C23 row bit search
# ------------------------------------------------------------------------------------------------
for o in range(7):
    ob(f'bitfield::c23_first_zeros_aligned_o{o}', ['C23'], ['bitfield::first_zeros_aligned'],
       bound='all 2^64 row values, order %d, universally quantified witness position' % o,
       claim='None <=> no aligned all-zero block; Some((v2,off)) => off lowest aligned free block and v2 == v | mask(off)')
EXPLAIN['C23'] = ('first_zeros_aligned is loop-free; each order is one obligation over all 2^64 rows, so a discharged '
                  'obligation is a complete proof of the statement for that order.')

# ------------------------------------------------------------------------------------------------
# L0 tree word contracts (shared by C11, C13, C15, C09)
# ------------------------------------------------------------------------------------------------
L0_TREE = 'all 2^32 tree words with free <= TREE_FRAMES, all classes, n in 1..=TREE_FRAMES, every pure policy (memoised ghost policy)'
ob('trees::l0_tree_with', ['C09'], ['trees::Tree::with'], bound=L0_TREE)
ob('trees::l0_tree_steal', ['C13', 'C15', 'C09'], ['trees::Tree::steal'], bound=L0_TREE)
ob('trees::l0_tree_reserve_or_steal', ['C13', 'C15', 'C09'], ['trees::Tree::reserve_or_steal'], bound=L0_TREE)
ob('trees::l0_tree_put', ['C09', 'C04'], ['trees::Tree::put'], bound=L0_TREE)
ob('trees::l0_tree_unreserve_add', ['C09', 'C04'], ['trees::Tree::unreserve_add'], bound=L0_TREE)
ob('trees::l0_tree_sync_steal', ['C11'], ['trees::Tree::sync_steal'], bound=L0_TREE)
ob('trees::l0_tree_change', ['C15'], ['trees::Tree::change'], bound=L0_TREE)

L0_LOCAL = 'all 2^64 slot words (present => free <= TREE_FRAMES), all tree ids, all n'
ob('local::l0_local_with_none', ['C09'], ['local::LocalTree::with', 'local::LocalTree::none'], bound=L0_LOCAL)
ob('local::l0_local_get', ['C09', 'C04'], ['local::LocalTree::get'], bound=L0_LOCAL)
ob('local::l0_local_put', ['C09', 'C04'], ['local::LocalTree::put'], bound=L0_LOCAL)
ob('local::l0_local_set_start', ['C09'], ['local::LocalTree::set_start'], bound=L0_LOCAL)
ob('util::l0_spin_wait', ['C21'], ['util::spin_wait'], bound='n <= RETRIES(4), any condition trace')

# C16
for n in range(1, 9):
    ob(f'util::c16_sorted_add_n{n}', ['C16'], ['util::SortedBuffer::add'],
       bound=f'capacity {n}, u8 keys, ANY buffer state satisfying the sorted-prefix invariant (inductive step => every insertion sequence)')
ob('util::c16_sorted_iter_rev_descending', ['C16'], ['util::SortedBuffer::iter'], bound='capacity 4, any sorted-prefix buffer')

# C19 (eval crate)
ob('classes::c19_count_to_local', ['C19'], ['classes::Count::to_local', 'classes::Count::to_count'], pkg='llfree-eval',
   bound='every Count kind; core, pid over all usize; cores >= 1 over all usize')
for n in range(1, 5):
    ob(f'classes::c19_request_n{n}', ['C19'], ['classes::ClassingConfig::request', 'classes::ClassConfig::matches', 'classes::GfpMatch::matches'],
       pkg='llfree-eval', timeout=900,
       bound=f'{n} classes with distinct ids < 8, every Count kind, any order window, GFP matcher of depth <= 2 over 4 flags, all order/core/cores>=1/pid/gfp values')

# ------------------------------------------------------------------------------------------------
# L1a: atomics, bitfield (sequential contracts) and the zeros lemmas
# ------------------------------------------------------------------------------------------------
SEQ = 'sequential (no interference)'
for t in ('u16', 'u32', 'u64'):
    ob(f'atomic::l1a_atom_try_update_{t}', ['C21', 'C02', 'C12'], ['atomic::Atom::try_update'], bound=f'all {t} values, any closure result; unwinding bound = one retry, unwinding assertion on')
for t in ('u32', 'u64'):
    ob(f'atomic::l1a_atom_update_{t}', ['C21', 'C02'], ['atomic::Atom::update'], bound=f'all {t} values; unwinding bound = one retry')
ob('atomic::l1a_atom_cas_swap', ['C02', 'C12'], ['atomic::Atom::compare_exchange', 'atomic::Atom::swap', 'atomic::Atom::fetch_or', 'atomic::Atom::fetch_and'], bound='all u64 triples')
for n in (1, 2, 4, 8):
    ob(f'atomic::l1a_cas_all_n{n}', ['C01', 'C02', 'C12'], ['atomic::AtomicSlice::compare_exchange_all'], bound=f'slice of {n} entries, all u16 contents, ' + SEQ)
BF = 'all 2^512 bitfield states, every aligned position, ' + SEQ
for o in range(10):
    ob(f'bitfield::l1a_toggle_o{o}', ['C01', 'C02'], ['bitfield::Bitfield::toggle'] + (['bitfield::Bitfield::toggle_int'] if 3 <= o <= 6 else []), bound=BF + f', order {o}, both directions')
    ob(f'bitfield::l1a_set_first_zeros_o{o}', ['C01', 'C12'], ['bitfield::Bitfield::set_first_zeros', 'bitfield::first_zeros_aligned'] + (['bitfield::Bitfield::set_first_zero_rows'] if o > 6 else []),
       bound=BF + f', order {o}, every start row, universally quantified witness block', timeout=900)
    ob(f'bitfield::l1a_zeros_lemmas_o{o}', ['C02', 'C04', 'C05'], ['(lemma) popcount facts Z1-Z3 used as ghost facts by lower contracts'], bound=BF + f', order {o}', timeout=900, cover=False)
for o in (0, 3, 6, 7, 9):
    ob(f'bitfield::l1a_is_zero_o{o}', ['C04', 'C10'], ['bitfield::Bitfield::is_zero'], bound=BF + f', order {o}', cover=False)
ob('bitfield::l1a_set_range', ['C06'], ['bitfield::Bitfield::set'], bound='all bitfield states, every range inside the bitfield', cover=False)
ob('bitfield::l1a_fill_count_zeros', ['C05', 'C06'], ['bitfield::Bitfield::fill', 'bitfield::Bitfield::count_zeros'], bound='all bitfield states', cover=False)
ob('lower::l0_huge_entry', ['C02', 'C09'], ['lower::HugeEntry::new_huge', 'lower::HugeEntry::new_with', 'lower::HugeEntry::dec', 'lower::HugeEntry::inc', 'lower::HugeEntry::huge', 'lower::HugeEntry::free'],
   bound='all well-formed u16 entries, n in 1..=512', cover=False)
ob('lower::l0_lower_metadata', ['C18'], ['lower::Metadata::new', 'lower::Lower::metadata_size', 'util::size_of_slice'], bound='frames <= 2^44', cover=False)

# ------------------------------------------------------------------------------------------------
# L1b: Lower::put / get_at / get, one obligation per (order, huge index); default geometry, one tree
# ------------------------------------------------------------------------------------------------
LOWER_ASSUMES = ['bitfield::Bitfield::toggle (l1a_toggle_o*)', 'bitfield::Bitfield::set_first_zeros (l1a_set_first_zeros_o*)',
                 'atomic::Atom::try_update / update sequential contract (l1a_atom_*)', 'ghost zeros lemmas Z1-Z3 (l1a_zeros_lemmas_o*)']
LB = 'config-bounded: 1 tree of 4 huge frames (2048 frames, all 2^2048 bit states x all well-formed entries under wf_lower), block anywhere in huge frame %d, order %d'
for fn, pre, props in (('put', 'l1b_put', ['C02', 'C01', 'C03']), ('get_at', 'l1b_get_at', ['C02', 'C01', 'C10']), ('get', 'l1b_get', ['C12', 'C02', 'C01'])):
    for o in range(12):
        hs = [h for h in range(4) if o < 9 or h % (1 << (o - 9)) == 0]
        quick_h = 1 if 1 in hs else hs[-1]
        for h in hs:
            fns = {'put': ['lower::Lower::put', 'lower::Lower::put_small', 'lower::Lower::partial_put_huge'],
                   'get_at': ['lower::Lower::get', 'lower::Lower::get_at'], 'get': ['lower::Lower::get']}[fn]
            quick_orders = {'put': (0, 5, 8, 9, 10), 'get_at': (0, 6, 7, 9, 11), 'get': (0, 3, 8, 9, 10, 11)}[fn]
            ob(f'lower::{pre}_o{o}_h{h}', props, fns, tier='quick' if (h == quick_h and o in quick_orders) else 'thorough', kind='config-bounded',
               bound=LB % (h, o), assumes=LOWER_ASSUMES, timeout=900, cover=(h == quick_h and o in (0, 9)))

# ------------------------------------------------------------------------------------------------
# C06 / C05 / C09: initialisation and recovery of the lower allocator, every frame count
# ------------------------------------------------------------------------------------------------
ob('bitfield::l1a_zeros_lemma_prefix', ['C06', 'C05'], ['(lemma) Z4: a prefix pattern of k zero bits has k zeros'], bound='every k <= 512', cover=False)
for b in range(1, 5):
    FB = f'every frame count with {b} bitfield(s): ({(b-1)*512}, {b*512}], any previous metadata contents'
    ob(f'lower::c06_free_all_b{b}', ['C06', 'C18'], ['lower::Lower::free_all'], kind='config-bounded', bound=FB,
       assumes=['bitfield::Bitfield::fill (l1a_fill_count_zeros)', 'bitfield::Bitfield::set (l1a_set_range)'], cover=(b == 2))
    ob(f'lower::c06_reserve_all_b{b}', ['C06', 'C18'], ['lower::Lower::reserve_all'], kind='config-bounded', bound=FB,
       assumes=['bitfield::Bitfield::fill (l1a_fill_count_zeros)'], cover=(b == 2))
    ob(f'lower::c05_recover_b{b}', ['C05', 'C09'], ['lower::Lower::recover'], kind='config-bounded',
       bound=FB + ' (ANY persistent state: no invariant assumed except bits beyond the range set)',
       assumes=['bitfield::Bitfield::count_zeros (l1a_fill_count_zeros)', 'ghost zeros lemma Z2 (l1a_zeros_lemmas_o*)'], cover=(b == 2))
ob('lower::c09_init_zero_frames', ['C09', 'C06'], ['lower::Lower::free_all', 'lower::Lower::reserve_all', 'lower::Lower::recover', 'lower::Lower::stats'],
   bound='frame count 0, every initialisation mode', cover=False)

for n in (2, 3):
    ob(f'trees::c16_search_best_n{n}', ['C16'], ['trees::Trees::search_best', 'util::SortedBuffer::add', 'util::SortedBuffer::iter'], kind='config-bounded',
       bound=f'4 trees, capacity {n}, every start, every rating assignment (Match(any)/Demote/Steal/Invalid per tree), every reserved-flag pattern',
       assumes=['std <[T]>::rotate_right / rotate_left(1) (assumed contract of the standard library)'], timeout=900)
