//! Contracts for `core/src/bitfield.rs` (child module: sees private items).
use super::*;
use crate::verif_contracts::{clause, vcover};

// ---------------------------------------------------------------------------------------------
// C23: first_zeros_aligned
// ---------------------------------------------------------------------------------------------

/// Mask of the aligned block of 2^order bits starting at bit `off` of a row.
pub(crate) fn row_mask(order: usize, off: usize) -> u64 {
    (u64::MAX >> (64 - (1usize << order))) << off
}
/// Spec: the aligned block at `off` is entirely free (all bits zero) in `v`.
pub(crate) fn row_block_free(v: u64, order: usize, off: usize) -> bool {
    v & row_mask(order, off) == 0
}

/// Postcondition of `first_zeros_aligned(v, order)`, taken from the statement of C23.
/// `p` is a universally quantified witness position (aligned, in range).
fn post_first_zeros_aligned(v: u64, order: usize, p: usize, r: Option<(u64, usize)>) {
    let n = 1usize << order;
    match r {
        None => {
            // reports no block exactly when the row has no all-free aligned block
            clause!(!row_block_free(v, order, p), "C23: None although an aligned free block exists");
        }
        Some((nv, off)) => {
            clause!(off < 64 && off % n == 0, "C23: offset not aligned or out of the row");
            clause!(row_block_free(v, order, off), "C23: reported block was not free");
            clause!(!(p < off && row_block_free(v, order, p)), "C23: a lower aligned free block exists");
            clause!(nv == (v | row_mask(order, off)), "C23: returned row is not v with exactly the block set");
        }
    }
}

macro_rules! c23_harness {
    ($name:ident, $order:expr) => {
        #[kani::proof]
        fn $name() {
            let v: u64 = kani::any();
            let p: usize = kani::any();
            kani::assume(p < 64 && p % (1usize << $order) == 0);
            let r = first_zeros_aligned(v, $order);
            vcover!(r.is_none(), "vacuity: None reachable");
            vcover!(r.is_some(), "vacuity: Some reachable");
            post_first_zeros_aligned(v, $order, p, r);
        }
    };
}
c23_harness!(c23_first_zeros_aligned_o0, 0);
c23_harness!(c23_first_zeros_aligned_o1, 1);
c23_harness!(c23_first_zeros_aligned_o2, 2);
c23_harness!(c23_first_zeros_aligned_o3, 3);
c23_harness!(c23_first_zeros_aligned_o4, 4);
c23_harness!(c23_first_zeros_aligned_o5, 5);
c23_harness!(c23_first_zeros_aligned_o6, 6);

// ---------------------------------------------------------------------------------------------
// L1a: Bitfield (one huge frame = ROWS rows of 64 bits). Sequential contracts.
// Abstract view of a bitfield: the array of its rows; bit = 1 means allocated.
// ---------------------------------------------------------------------------------------------
pub(crate) type Rows = [u64; ROWS];


/// Iterate over the rows of a bitfield without a loop (8 rows in the 4K geometry), so that harnesses
/// can run with an unwinding bound below ROWS; the 16K geometry (32 rows) uses a plain loop.
#[cfg(not(feature = "16K"))]
macro_rules! for_rows {
    ($r:ident, $body:block) => {{
        { let $r: usize = 0; $body }
        { let $r: usize = 1; $body }
        { let $r: usize = 2; $body }
        { let $r: usize = 3; $body }
        { let $r: usize = 4; $body }
        { let $r: usize = 5; $body }
        { let $r: usize = 6; $body }
        { let $r: usize = 7; $body }
    }};
}
#[cfg(feature = "16K")]
macro_rules! for_rows {
    ($r:ident, $body:block) => {{
        let mut __r = 0;
        while __r < ROWS {
            let $r: usize = __r;
            $body
            __r += 1;
        }
    }};
}
pub(crate) use for_rows;
/// Eight (or ROWS) independent symbolic rows, built without a loop.
#[cfg(not(feature = "16K"))]
pub(crate) fn any_rows() -> Rows {
    [kani::any(), kani::any(), kani::any(), kani::any(), kani::any(), kani::any(), kani::any(), kani::any()]
}
#[cfg(feature = "16K")]
pub(crate) fn any_rows() -> Rows {
    kani::any()
}

pub(crate) fn any_bitfield() -> Bitfield {
    let r: Rows = kani::any();
    bitfield_from(r)
}
pub(crate) fn bitfield_from(r: Rows) -> Bitfield {
    let b = Bitfield::default();
    for_rows!(i, {
        b.data[i].store(r[i]);
    });
    b
}
pub(crate) fn set_row_raw(b: &Bitfield, r: usize, v: u64) {
    b.data[r].store(v);
}
pub(crate) fn rows_of(b: &Bitfield) -> Rows {
    let mut r = [0u64; ROWS];
    for_rows!(i, {
        r[i] = b.data[i].load();
    });
    r
}
/// Spec: an aligned block of 2^order bits inside one bitfield, as (first row, number of rows, mask
/// inside each of those rows). Computed once so that the symbolic shift is not repeated per row.
#[derive(Clone, Copy)]
pub(crate) struct Blk {
    pub r0: usize,
    pub nrows: usize,
    pub mask: u64,
}
pub(crate) fn blk(bit: usize, order: usize) -> Blk {
    let n = 1usize << order;
    let bit = bit % Bitfield::LEN;
    if n >= 64 {
        Blk { r0: bit / 64, nrows: n / 64, mask: u64::MAX }
    } else {
        Blk { r0: bit / 64, nrows: 1, mask: row_mask(order, bit % 64) }
    }
}
impl Blk {
    #[inline(always)]
    pub fn mask_in_row(&self, r: usize) -> u64 {
        if r >= self.r0 && r < self.r0 + self.nrows { self.mask } else { 0 }
    }
}
/// Spec: the part of the aligned block that lies in row `r`, as a mask.
pub(crate) fn block_mask_in_row(bit: usize, order: usize, r: usize) -> u64 {
    blk(bit, order).mask_in_row(r)
}
/// Spec: every bit of the block equals `val` in `rows`.
pub(crate) fn blk_all(rows: &Rows, b: &Blk, val: bool) -> bool {
    let mut ok = true;
    for_rows!(r, {
        let m = b.mask_in_row(r);
        let want = if val { m } else { 0 };
        if rows[r] & m != want {
            ok = false;
        }
    });
    ok
}
pub(crate) fn block_all(rows: &Rows, bit: usize, order: usize, val: bool) -> bool {
    blk_all(rows, &blk(bit, order), val)
}
/// Spec: `new` is `old` with exactly the block's bits set to `val`; every other bit unchanged.
pub(crate) fn rows_with_blk(old: &Rows, new: &Rows, b: &Blk, val: bool) -> bool {
    let mut ok = true;
    for_rows!(r, {
        let m = b.mask_in_row(r);
        let want = if val { old[r] | m } else { old[r] & !m };
        if new[r] != want {
            ok = false;
        }
    });
    ok
}
pub(crate) fn rows_with_block(old: &Rows, new: &Rows, bit: usize, order: usize, val: bool) -> bool {
    rows_with_blk(old, new, &blk(bit, order), val)
}
pub(crate) fn rows_eq(a: &Rows, b: &Rows) -> bool {
    let mut ok = true;
    for_rows!(r, {
        if a[r] != b[r] {
            ok = false;
        }
    });
    ok
}
pub(crate) fn rows_zeros(a: &Rows) -> usize {
    let mut z = 0usize;
    for_rows!(r, {
        z += a[r].count_zeros() as usize;
    });
    z
}

/// Contract of `Bitfield::toggle(i, order, expected)` (sequential):
///   pre : i aligned to order, order <= Bitfield::ORDER
///   post: Ok  <=> every bit of the block equalled `expected`;
///         Ok  => exactly the block's bits are flipped, nothing else changes;
///         Err => nothing changes.
fn check_toggle<const ORDER: usize>() {
    let old: Rows = kani::any();
    let b = bitfield_from(old);
    let i: usize = kani::any();
    kani::assume(i % (1usize << ORDER) == 0 && i < (1usize << 40));
    let expected: bool = kani::any();
    let r = b.toggle(FrameId(i), ORDER, expected);
    let new = rows_of(&b);
    vcover!(r.is_ok(), "toggle ok");
    vcover!(r.is_err(), "toggle err");
    clause!(r.is_ok() == block_all(&old, i, ORDER, expected), "toggle: Ok iff every bit of the block had the expected value");
    if r.is_ok() {
        clause!(rows_with_block(&old, &new, i, ORDER, !expected), "toggle: Ok flips exactly the block, every other bit unchanged");
    } else {
        clause!(rows_eq(&old, &new), "toggle: Err leaves the bitfield unchanged");
    }
}
macro_rules! toggle_harness {
    ($name:ident, $o:expr) => {
        #[kani::proof]
        #[kani::unwind(10)]
        fn $name() {
            check_toggle::<$o>();
        }
    };
}
toggle_harness!(l1a_toggle_o0, 0);
toggle_harness!(l1a_toggle_o1, 1);
toggle_harness!(l1a_toggle_o2, 2);
toggle_harness!(l1a_toggle_o3, 3);
toggle_harness!(l1a_toggle_o4, 4);
toggle_harness!(l1a_toggle_o5, 5);
toggle_harness!(l1a_toggle_o6, 6);
toggle_harness!(l1a_toggle_o7, 7);
toggle_harness!(l1a_toggle_o8, 8);
toggle_harness!(l1a_toggle_o9, 9);

/// Contract of `Bitfield::set_first_zeros(start_row, order)` (sequential), C12:
///   post: Err <=> no aligned all-zero block of 2^order bits exists (universally quantified witness p);
///         Ok(off) => off aligned and inside the bitfield, the block was all zero, now all one,
///                    every other bit unchanged;  Err => nothing changes.
fn check_set_first_zeros<const ORDER: usize>() {
    let old: Rows = kani::any();
    let b = bitfield_from(old);
    let start: usize = kani::any();
    kani::assume(start < (1usize << 40));
    let p: usize = kani::any();
    kani::assume(p < Bitfield::LEN && p % (1usize << ORDER) == 0);
    let r = b.set_first_zeros(RowId(start), ORDER);
    let new = rows_of(&b);
    vcover!(r.is_ok(), "search ok");
    vcover!(r.is_err(), "search err");
    match r {
        Ok(off) => {
            clause!(off.0 < Bitfield::LEN && off.0 % (1usize << ORDER) == 0, "C12: found block aligned and inside the bitfield");
            clause!(block_all(&old, off.0, ORDER, false), "C12: found block was entirely free");
            clause!(rows_with_block(&old, &new, off.0, ORDER, true), "C12: success marks exactly that block");
        }
        Err(_) => {
            clause!(!block_all(&old, p, ORDER, false), "C12: search fails although an aligned free block exists");
            clause!(rows_eq(&old, &new), "C12: failed search leaves the bitfield unchanged");
        }
    }
}
macro_rules! sfz_harness {
    ($name:ident, $o:expr) => {
        #[kani::proof]
        #[kani::unwind(10)]
        fn $name() {
            check_set_first_zeros::<$o>();
        }
    };
}
sfz_harness!(l1a_set_first_zeros_o0, 0);
sfz_harness!(l1a_set_first_zeros_o1, 1);
sfz_harness!(l1a_set_first_zeros_o2, 2);
sfz_harness!(l1a_set_first_zeros_o3, 3);
sfz_harness!(l1a_set_first_zeros_o4, 4);
sfz_harness!(l1a_set_first_zeros_o5, 5);
sfz_harness!(l1a_set_first_zeros_o6, 6);
sfz_harness!(l1a_set_first_zeros_o7, 7);
sfz_harness!(l1a_set_first_zeros_o8, 8);
sfz_harness!(l1a_set_first_zeros_o9, 9);

/// `is_zero(i, order)` <=> the block is entirely free.
fn check_is_zero<const ORDER: usize>() {
    let old: Rows = kani::any();
    let b = bitfield_from(old);
    let i: usize = kani::any();
    kani::assume(i % (1usize << ORDER) == 0 && i < (1usize << 40));
    let r = b.is_zero(FrameId(i), ORDER);
    clause!(r == block_all(&old, i, ORDER, false), "is_zero: true iff every bit of the block is zero");
    clause!(rows_eq(&old, &rows_of(&b)), "is_zero: read-only");
}
macro_rules! is_zero_harness {
    ($name:ident, $o:expr) => {
        #[kani::proof]
        #[kani::unwind(10)]
        fn $name() {
            check_is_zero::<$o>();
        }
    };
}
is_zero_harness!(l1a_is_zero_o0, 0);
is_zero_harness!(l1a_is_zero_o3, 3);
is_zero_harness!(l1a_is_zero_o6, 6);
is_zero_harness!(l1a_is_zero_o7, 7);
is_zero_harness!(l1a_is_zero_o9, 9);

/// `set(range, v)`: exactly the bits of the range take value v (range inside one bitfield).
#[kani::proof]
#[kani::unwind(10)]
fn l1a_set_range() {
    let old: Rows = kani::any();
    let b = bitfield_from(old);
    let s: usize = kani::any();
    let e: usize = kani::any();
    // pre (the code asserts it): the range lies inside one bitfield
    kani::assume(s <= e && e <= Bitfield::LEN && s < Bitfield::LEN);
    let v: bool = kani::any();
    let bit: usize = kani::any();
    kani::assume(bit < Bitfield::LEN);
    b.set(FrameId(s)..FrameId(e), v);
    let new = rows_of(&b);
    let was = (old[bit / 64] >> (bit % 64)) & 1 == 1;
    let is = (new[bit / 64] >> (bit % 64)) & 1 == 1;
    clause!(is == if bit >= s && bit < e { v } else { was }, "set: exactly the bits of the range take the value");
}

/// `fill` and `count_zeros`.
#[kani::proof]
#[kani::unwind(10)]
fn l1a_fill_count_zeros() {
    let old: Rows = kani::any();
    let b = bitfield_from(old);
    clause!(b.count_zeros() == rows_zeros(&old), "count_zeros: number of zero bits");
    let v: bool = kani::any();
    b.fill(v);
    let new = rows_of(&b);
    let r: usize = kani::any();
    kani::assume(r < ROWS);
    clause!(new[r] == if v { u64::MAX } else { 0 }, "fill: every row takes the value");
    clause!(b.count_zeros() == if v { 0 } else { Bitfield::LEN }, "fill: count_zeros is 0 or LEN");
}

/// Lemmas about the ghost quantity `zeros` = count_zeros (proved here once, used as facts by the
/// lower-level contracts, which keep `zeros` as an opaque ghost number):
///   Z1  flipping an all-`e` block changes zeros by exactly +-2^order
///   Z2  zeros == LEN  <=>  every row is 0;  zeros == 0 <=> every row is all ones
///   Z3  block all ones  => zeros <= LEN - 2^order;  block all zeros => zeros >= 2^order
fn check_zeros_lemmas<const ORDER: usize>() {
    let old: Rows = kani::any();
    let new: Rows = kani::any();
    let bit: usize = kani::any();
    kani::assume(bit < Bitfield::LEN && bit % (1usize << ORDER) == 0);
    let n = 1usize << ORDER;
    let z = rows_zeros(&old);
    if block_all(&old, bit, ORDER, true) {
        clause!(z <= Bitfield::LEN - n, "Z3: an all-ones block bounds zeros from above");
        if rows_with_block(&old, &new, bit, ORDER, false) {
            clause!(rows_zeros(&new) == z + n, "Z1: clearing an all-ones block adds 2^order zeros");
        }
    }
    if block_all(&old, bit, ORDER, false) {
        clause!(z >= n, "Z3: an all-zero block bounds zeros from below");
        if rows_with_block(&old, &new, bit, ORDER, true) {
            clause!(rows_zeros(&new) == z - n, "Z1: setting an all-zero block removes 2^order zeros");
        }
    }
    let mut all0 = true;
    let mut all1 = true;
    for_rows!(r, {
        if old[r] != 0 {
            all0 = false;
        }
        if old[r] != u64::MAX {
            all1 = false;
        }
    });
    clause!((z == Bitfield::LEN) == all0, "Z2: zeros == LEN iff every row is zero");
    clause!((z == 0) == all1, "Z2: zeros == 0 iff every row is all ones");
}
macro_rules! zeros_harness {
    ($name:ident, $o:expr) => {
        #[kani::proof]
        #[kani::unwind(10)]
        #[kani::solver(kissat)]
        fn $name() {
            check_zeros_lemmas::<$o>();
        }
    };
}
zeros_harness!(l1a_zeros_lemmas_o0, 0);
zeros_harness!(l1a_zeros_lemmas_o1, 1);
zeros_harness!(l1a_zeros_lemmas_o2, 2);
zeros_harness!(l1a_zeros_lemmas_o3, 3);
zeros_harness!(l1a_zeros_lemmas_o4, 4);
zeros_harness!(l1a_zeros_lemmas_o5, 5);
zeros_harness!(l1a_zeros_lemmas_o6, 6);
zeros_harness!(l1a_zeros_lemmas_o7, 7);
zeros_harness!(l1a_zeros_lemmas_o8, 8);
zeros_harness!(l1a_zeros_lemmas_o9, 9);

// ---------------------------------------------------------------------------------------------
// Verified stubs: the contracts above in executable form, installed at call sites in the L1b
// obligations (`#[kani::stub]`), so that callers are checked against the contract, not the body.
// `toggle`'s contract determines result and final state completely, so "havoc + assume(post)" is
// the same as computing the specified state. `set_first_zeros` is nondeterministic in the block it
// picks: any aligned all-zero block. Its Err postcondition (`no aligned free block exists`) is
// universally quantified; it is instantiated at the caller's witness block (SFZ_WITNESS), which
// over-approximates the callee (sound for proving the caller's postcondition).
// ---------------------------------------------------------------------------------------------
pub(crate) static mut SFZ_WITNESS: (usize, usize) = (0, 0); // (address of the witness bitfield, first bit)

impl Bitfield {
    pub(crate) fn toggle_contract(&self, i: FrameId, order: usize, expected: bool) -> Result<()> {
        kani::assert(order <= Self::ORDER && i.0 % (1usize << order) == 0, "toggle precondition: aligned, order <= 9");
        let b = blk(i.0, order);
        let old = rows_of(self);
        if blk_all(&old, &b, expected) {
            for_rows!(r, {
                let m = b.mask_in_row(r);
                self.data[r].store(if expected { old[r] & !m } else { old[r] | m });
            });
            Ok(())
        } else {
            Err(Error::Memory)
        }
    }
    pub(crate) fn set_first_zeros_contract(&self, _start_row: RowId, order: usize) -> Result<FrameId> {
        kani::assert(order <= Self::ORDER, "set_first_zeros precondition: order <= 9");
        let old = rows_of(self);
        if kani::any() {
            let p: usize = kani::any();
            kani::assume(p < Self::LEN && p % (1usize << order) == 0);
            let b = blk(p, order);
            kani::assume(blk_all(&old, &b, false));
            for_rows!(r, {
                self.data[r].store(old[r] | b.mask_in_row(r));
            });
            Ok(FrameId(p))
        } else {
            let (addr, bit) = unsafe { SFZ_WITNESS };
            if addr == self as *const Self as usize {
                kani::assume(!blk_all(&old, &blk(bit, order), false));
            }
            Err(Error::Memory)
        }
    }
}

/// Lemma Z4: a bitfield whose first k bits are zero and all others one has exactly k zeros
/// (ties the explicit patterns written by initialisation to the counters it stores).
#[kani::proof]
#[kani::unwind(10)]
fn l1a_zeros_lemma_prefix() {
    let k: usize = kani::any();
    kani::assume(k <= Bitfield::LEN);
    let mut r = [0u64; ROWS];
    for_rows!(i, {
        let lo = i * 64;
        r[i] = if k >= lo + 64 { 0 } else if k <= lo { u64::MAX } else { u64::MAX << (k - lo) };
    });
    clause!(rows_zeros(&r) == k, "Z4: prefix pattern has exactly k zeros");
}

// ---------------------------------------------------------------------------------------------
// Ghost-array stubs for the initialisation code (C06): `fill` and `set` by contract, acting on a
// ghost copy of the rows that is indexed by the bitfield's position in the metadata array.
// Initialisation reaches bitfields through slices whose split point depends on the (symbolic)
// frame count; CBMC's byte-level updates through such pointers are intractable, array updates
// on the ghost copy are not. The contracts are the ones checked by l1a_fill_count_zeros and
// l1a_set_range.
// ---------------------------------------------------------------------------------------------
pub(crate) const G_MAX: usize = 16;
pub(crate) static mut G_ROWS: [Rows; G_MAX] = [[0; ROWS]; G_MAX];
pub(crate) static mut G_BASE: usize = 0; // address of bitfield 0 of the metadata array
pub(crate) static mut G_STRIDE: usize = 64;

fn ghost_index(b: &Bitfield) -> usize {
    let a = b as *const Bitfield as usize;
    let (base, stride) = unsafe { (G_BASE, G_STRIDE) };
    kani::assert(a >= base && (a - base) % stride == 0 && (a - base) / stride < G_MAX, "ghost bitfield index: pointer inside the metadata array");
    (a - base) / stride
}
impl Bitfield {
    pub(crate) fn fill_contract(&self, v: bool) {
        let h = ghost_index(self);
        unsafe { G_ROWS[h] = [if v { u64::MAX } else { 0 }; ROWS] };
    }
    pub(crate) fn set_contract(&self, range: Range<FrameId>, v: bool) {
        let (s, e) = (range.start.0, range.end.0);
        kani::assert(s <= e && e <= Self::LEN && s < Self::LEN, "Bitfield::set precondition: the range lies inside one bitfield");
        let h = ghost_index(self);
        for_rows!(r, {
            let lo = if s > r * 64 { s - r * 64 } else { 0 };
            let hi = if e > r * 64 { if e - r * 64 > 64 { 64 } else { e - r * 64 } } else { 0 };
            let m = if hi > lo && lo < 64 { (u64::MAX >> (64 - (hi - lo))) << lo } else { 0 };
            unsafe {
                G_ROWS[h][r] = if v { G_ROWS[h][r] | m } else { G_ROWS[h][r] & !m };
            }
        });
    }
}

// ---------------------------------------------------------------------------------------------
// C01 / C03 / C21 under ALL interleavings with any number of other threads, bitfield level:
// call contracts of the bit-claiming functions against the rely/guarantee environment of
// `atomic::verif_contracts::env`.
//   allocation  Ok(block) => ownership grew by exactly that block;  Err => ownership unchanged
//   free of a held block  => returns Ok, ownership shrank by exactly the block
//   no panic (undo paths included), every loop exits within its bound
// ---------------------------------------------------------------------------------------------
use crate::atomic::verif_contracts::env;

fn rg_start(b: &Bitfield, rows: &Rows) -> Rows {
    // this thread may already own any subset of the allocated bits
    let own: Rows = {
        let a = any_rows();
        let mut o = [0u64; ROWS];
        for_rows!(r, {
            o[r] = a[r] & rows[r];
        });
        o
    };
    unsafe {
        env::BASE = &b.data[0] as *const Atom<u64> as usize;
        env::NWORDS = ROWS;
        let mut r = 0;
        while r < ROWS && r < env::MAXW {
            env::OWN[r] = own[r];
            r += 1;
        }
        env::BUDGET = kani::any();
        env::ON = true;
    }
    own
}
fn rg_own() -> Rows {
    let mut o = [0u64; ROWS];
    let mut r = 0;
    while r < ROWS && r < env::MAXW {
        o[r] = unsafe { env::OWN[r] };
        r += 1;
    }
    o
}

fn rg_set_first_zeros<const ORDER: usize>() {
    let rows = any_rows();
    let b = bitfield_from(rows);
    let own0 = rg_start(&b, &rows);
    let start: usize = kani::any();
    kani::assume(start < (1usize << 40));
    let r = b.set_first_zeros(RowId(start), ORDER);
    let own = rg_own();
    vcover!(r.is_ok(), "allocation under interference succeeds");
    vcover!(r.is_err(), "allocation under interference fails");
    match r {
        Ok(off) => {
            clause!(off.0 < Bitfield::LEN && off.0 % (1usize << ORDER) == 0, "C01: returned block aligned and inside the bitfield");
            let bl = blk(off.0, ORDER);
            clause!(blk_all(&own0, &bl, false), "C01: the returned block was not already held by this thread");
            clause!(rows_with_blk(&own0, &own, &bl, true), "C01: a successful allocation owns exactly the returned block, under every interleaving");
        }
        Err(_) => clause!(rows_eq(&own0, &own), "C01: a failed allocation keeps nothing, under every interleaving"),
    }
}
fn rg_toggle_alloc<const ORDER: usize>() {
    let rows = any_rows();
    let b = bitfield_from(rows);
    let own0 = rg_start(&b, &rows);
    let i: usize = kani::any();
    kani::assume(i % (1usize << ORDER) == 0 && i < Bitfield::LEN);
    let r = b.toggle(FrameId(i), ORDER, false);
    let own = rg_own();
    let bl = blk(i, ORDER);
    vcover!(r.is_ok(), "targeted claim succeeds");
    vcover!(r.is_err(), "targeted claim fails");
    if r.is_ok() {
        clause!(blk_all(&own0, &bl, false), "C01: the claimed block was not already held by this thread");
        clause!(rows_with_blk(&own0, &own, &bl, true), "C01: a successful targeted claim owns exactly the block, under every interleaving");
    } else {
        clause!(rows_eq(&own0, &own), "C01: a failed targeted claim keeps nothing, under every interleaving");
    }
}
fn rg_toggle_free<const ORDER: usize>() {
    let rows = any_rows();
    let b = bitfield_from(rows);
    let own0 = rg_start(&b, &rows);
    let i: usize = kani::any();
    kani::assume(i % (1usize << ORDER) == 0 && i < Bitfield::LEN);
    let bl = blk(i, ORDER);
    kani::assume(blk_all(&own0, &bl, true)); // the caller holds the block
    let r = b.toggle(FrameId(i), ORDER, true);
    let own = rg_own();
    clause!(r.is_ok(), "C03: the free of a held block succeeds under every interleaving");
    clause!(rows_with_blk(&own0, &own, &bl, false), "C01: a free releases exactly the block");
}
macro_rules! rg_harness {
    ($f:ident, $($name:ident: $o:expr),+) => {
        $(
        #[kani::proof]
        #[kani::unwind(10)]
        #[kani::solver(kissat)]
        #[kani::stub(crate::atomic::Atom::load, crate::atomic::Atom::load_rg)]
        #[kani::stub(crate::atomic::Atom::store, crate::atomic::Atom::store_rg)]
        #[kani::stub(crate::atomic::Atom::compare_exchange, crate::atomic::Atom::compare_exchange_rg)]
        #[kani::stub(crate::atomic::Atom::try_update, crate::atomic::Atom::try_update_rg)]
        fn $name() {
            $f::<$o>();
        }
        )+
    };
}
rg_harness!(rg_set_first_zeros, rg_set_first_zeros_o0: 0, rg_set_first_zeros_o1: 1, rg_set_first_zeros_o2: 2, rg_set_first_zeros_o3: 3, rg_set_first_zeros_o4: 4,
    rg_set_first_zeros_o5: 5, rg_set_first_zeros_o6: 6, rg_set_first_zeros_o7: 7, rg_set_first_zeros_o8: 8, rg_set_first_zeros_o9: 9);
rg_harness!(rg_toggle_alloc, rg_toggle_alloc_o0: 0, rg_toggle_alloc_o2: 2, rg_toggle_alloc_o3: 3, rg_toggle_alloc_o4: 4, rg_toggle_alloc_o5: 5, rg_toggle_alloc_o6: 6,
    rg_toggle_alloc_o7: 7, rg_toggle_alloc_o8: 8, rg_toggle_alloc_o9: 9);
rg_harness!(rg_toggle_free, rg_toggle_free_o0: 0, rg_toggle_free_o2: 2, rg_toggle_free_o3: 3, rg_toggle_free_o4: 4, rg_toggle_free_o5: 5, rg_toggle_free_o6: 6,
    rg_toggle_free_o7: 7, rg_toggle_free_o8: 8, rg_toggle_free_o9: 9);
pub(crate) fn row_ptr(b: &Bitfield) -> *const Atom<u64> {
    &b.data[0] as *const Atom<u64>
}

// Rely/guarantee contract of `set_first_zeros` as a stub (checked by rg_set_first_zeros_o*): under any
// interference it either claims exactly one aligned block that this thread did not own (counter units
// are converted into owned bits) or leaves its ownership unchanged. The rows it finds are whatever the
// environment allows (every value that keeps this thread's bits).
impl Bitfield {
    pub(crate) fn set_first_zeros_rg_contract(&self, _start_row: RowId, order: usize) -> Result<FrameId> {
        kani::assert(order <= Self::ORDER, "set_first_zeros precondition: order <= 9");
        let base = unsafe { env::BASE };
        let a = &self.data[0] as *const Atom<u64> as usize;
        kani::assert(a >= base && (a - base) % 64 == 0 && (a - base) / 64 < env::MAXH, "rely/guarantee stub: bitfield inside the registered region");
        let h = (a - base) / 64;
        // environment: arbitrary rows that keep this thread's bits
        let mut cur = any_rows();
        for_rows!(r, {
            let own = unsafe { env::OWN[h * ROWS + r] };
            kani::assume(cur[r] & own == own);
        });
        let n = 1usize << order;
        if kani::any() {
            let p: usize = kani::any();
            kani::assume(p < Self::LEN && p % n == 0);
            let b = blk(p, order);
            for_rows!(r, {
                let m = b.mask_in_row(r);
                // claimed from free: none of the block's bits was set (so none was owned)
                kani::assume(cur[r] & m == 0);
                cur[r] |= m;
                unsafe { env::OWN[h * ROWS + r] |= m };
            });
            unsafe {
                if env::UNITS_ON {
                    kani::assert(env::RES[h] >= n, "C01/C05 guarantee: bits are claimed only against counter units reserved before (counter first, then bits)");
                    env::RES[h] -= n;
                    env::OWNED_BITS[h] += n;
                }
            }
            // raw writes: what the rows hold now is the environment's doing plus the claim accounted above
            for_rows!(r, {
                self.data[r].0.store(cur[r], core::sync::atomic::Ordering::SeqCst);
            });
            Ok(FrameId(p))
        } else {
            // raw writes: what the rows hold now is the environment's doing plus the claim accounted above
            for_rows!(r, {
                self.data[r].0.store(cur[r], core::sync::atomic::Ordering::SeqCst);
            });
            Err(Error::Memory)
        }
    }
}
