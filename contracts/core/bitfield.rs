//! Contracts for `core/src/bitfield.rs` (child module: sees private items).
use super::*;
use crate::verif_contracts::{clause, vcover};

// ---------------------------------------------------------------------------------------------
// C23: first_zeros_aligned
// ---------------------------------------------------------------------------------------------

/// Mask of the aligned block of 2^order bits starting at bit `off` of a row.
pub(crate) fn row_mask(order: usize, off: usize) -> u64 {
    (u64::MAX >> (64 - (1usize << order))) << off
}
/// Spec: the aligned block at `off` is entirely free (all bits zero) in `v`.
pub(crate) fn row_block_free(v: u64, order: usize, off: usize) -> bool {
    v & row_mask(order, off) == 0
}

/// Postcondition of `first_zeros_aligned(v, order)`, taken from the statement of C23.
/// `p` is a universally quantified witness position (aligned, in range).
fn post_first_zeros_aligned(v: u64, order: usize, p: usize, r: Option<(u64, usize)>) {
    let n = 1usize << order;
    match r {
        None => {
            // reports no block exactly when the row has no all-free aligned block
            clause!(!row_block_free(v, order, p), "C23: None although an aligned free block exists");
        }
        Some((nv, off)) => {
            clause!(off < 64 && off % n == 0, "C23: offset not aligned or out of the row");
            clause!(row_block_free(v, order, off), "C23: reported block was not free");
            clause!(!(p < off && row_block_free(v, order, p)), "C23: a lower aligned free block exists");
            clause!(nv == (v | row_mask(order, off)), "C23: returned row is not v with exactly the block set");
        }
    }
}

macro_rules! c23_harness {
    ($name:ident, $order:expr) => {
        #[kani::proof]
        fn $name() {
            let v: u64 = kani::any();
            let p: usize = kani::any();
            kani::assume(p < 64 && p % (1usize << $order) == 0);
            let r = first_zeros_aligned(v, $order);
            vcover!(r.is_none(), "vacuity: None reachable");
            vcover!(r.is_some(), "vacuity: Some reachable");
            post_first_zeros_aligned(v, $order, p, r);
        }
    };
}
c23_harness!(c23_first_zeros_aligned_o0, 0);
c23_harness!(c23_first_zeros_aligned_o1, 1);
c23_harness!(c23_first_zeros_aligned_o2, 2);
c23_harness!(c23_first_zeros_aligned_o3, 3);
c23_harness!(c23_first_zeros_aligned_o4, 4);
c23_harness!(c23_first_zeros_aligned_o5, 5);
c23_harness!(c23_first_zeros_aligned_o6, 6);
