//! Shared specification vocabulary (appended to `core/src/lib.rs` as `crate::verif_contracts`).
#![allow(unused)]
use super::*;

/// `cover!` that disappears in replay builds (Kani's concrete playback only emits the
/// counterexample of a failed assertion when the harness has no cover statements).
macro_rules! vcover {
    ($c:expr, $m:literal) => {
        #[cfg(not(feature = "verif_replay"))]
        kani::cover!($c, $m);
    };
}
pub(crate) use vcover;

/// A contract clause: a separately named assertion (stable text, used to match known findings).
macro_rules! clause {
    ($c:expr, $m:literal) => {
        kani::assert($c, $m)
    };
}
pub(crate) use clause;
