//! Shared specification vocabulary (appended to `core/src/lib.rs` as `crate::verif_contracts`).
#![allow(unused)]
use super::*;

/// `cover!` that disappears in replay builds (Kani's concrete playback only emits the
/// counterexample of a failed assertion when the harness has no cover statements).
macro_rules! vcover {
    ($c:expr, $m:literal) => {
        #[cfg(not(any(feature = "verif_replay", feature = "verif_nocover")))]
        kani::cover!($c, $m);
    };
}
pub(crate) use vcover;

/// A contract clause: a separately named assertion (stable text, used to match known findings).
macro_rules! clause {
    ($c:expr, $m:literal) => {
        kani::assert($c, $m)
    };
}
pub(crate) use clause;

// ---------------------------------------------------------------------------------------------
// Ghost policy: an arbitrary *pure* policy function.
// Each distinct argument triple gets a nondeterministic answer that is memoised, so the harness
// quantifies over every deterministic `PolicyFn` (as long as a call makes at most CAP distinct
// queries, which is itself asserted).
// ---------------------------------------------------------------------------------------------
pub(crate) mod gpolicy {
    use crate::{Class, Policy};
    pub const CAP: usize = 6;
    static mut LEN: usize = 0;
    static mut ARGS: [(u8, u8, usize); CAP] = [(0, 0, 0); CAP];
    static mut RES: [Policy; CAP] = [Policy::Invalid; CAP];
    /// If set, the policy never answers `Invalid` ("never declares a tree unusable").
    pub static mut NEVER_INVALID: bool = false;

    pub fn any_policy_value() -> Policy {
        let k: u8 = kani::any();
        let never_invalid = unsafe { NEVER_INVALID };
        kani::assume(k < 4 && !(never_invalid && k == 3));
        match k {
            0 => Policy::Match(kani::any()),
            1 => Policy::Demote,
            2 => Policy::Steal,
            _ => Policy::Invalid,
        }
    }

    /// The policy function handed to the code under contract.
    pub fn policy(req: Class, tgt: Class, free: usize) -> Policy {
        unsafe {
            let mut i = 0;
            while i < LEN {
                if ARGS[i].0 == req.0 && ARGS[i].1 == tgt.0 && ARGS[i].2 == free {
                    return RES[i];
                }
                i += 1;
            }
            kani::assert(LEN < CAP, "ghost policy: more distinct queries than the log holds");
            let p = any_policy_value();
            ARGS[LEN] = (req.0, tgt.0, free);
            RES[LEN] = p;
            LEN += 1;
            p
        }
    }
    /// Was `policy(req, tgt, _)` answered with Match or Steal for some `free` during this run?
    pub fn answered_match_or_steal(req: Class, tgt: Class) -> bool {
        unsafe {
            let mut i = 0;
            let mut r = false;
            while i < LEN {
                if ARGS[i].0 == req.0 && ARGS[i].1 == tgt.0 && matches!(RES[i], Policy::Match(_) | Policy::Steal) {
                    r = true;
                }
                i += 1;
            }
            r
        }
    }
}

pub(crate) fn any_class() -> Class {
    let c: u8 = kani::any();
    kani::assume(c < Class::LEN);
    Class(c)
}

// ---------------------------------------------------------------------------------------------
// Ghost "kind" policy for the allocator-level (L2) obligations: every policy whose verdict kind
// (Match / Demote / Steal / Invalid) depends on the two classes only and whose Match priority is
// an arbitrary three-level function of the free count with arbitrary thresholds. All policies of
// the repository (simple, movable, the zeroed policy of the integration tests, the eval config)
// have this shape. KIND is a symbolic 8x8 table chosen by the harness.
// ---------------------------------------------------------------------------------------------
pub(crate) mod kpolicy {
    use crate::{Class, Policy};
    pub static mut KIND: [[u8; 8]; 8] = [[0; 8]; 8];
    pub static mut PRIO: [u8; 3] = [0; 3];
    pub static mut THRESH: [usize; 2] = [0; 2];
    /// ghost log for C13: KIND answers given during the current call
    pub fn init(never_invalid: bool) {
        let k: [[u8; 8]; 8] = kani::any();
        let mut a = 0;
        while a < 8 {
            let mut b = 0;
            while b < 8 {
                kani::assume(k[a][b] < 4 && !(never_invalid && k[a][b] == 3));
                b += 1;
            }
            // a usable policy rates a tree of the requested class itself as a match
            kani::assume(k[a][a] == 0);
            a += 1;
        }
        // demotion composes: if class a may demote trees of class b, and b may keep or demote trees of
        // class c, then a may keep or demote trees of class c (every class-order policy of the
        // repository has this shape; the allocator unreserves a demoted tree under the demoting class)
        let mut a = 0;
        while a < 8 {
            let mut b = 0;
            while b < 8 {
                let mut c = 0;
                while c < 8 {
                    kani::assume(!(k[a][b] == 1 && k[b][c] <= 1) || k[a][c] <= 1);
                    c += 1;
                }
                b += 1;
            }
            a += 1;
        }
        unsafe {
            KIND = k;
            PRIO = kani::any();
            THRESH = kani::any();
        }
    }
    pub fn kind(req: Class, tgt: Class) -> u8 {
        unsafe { KIND[(req.0 & 7) as usize][(tgt.0 & 7) as usize] }
    }
    pub fn policy(req: Class, tgt: Class, free: usize) -> Policy {
        match kind(req, tgt) {
            0 => {
                let (p, t) = unsafe { (PRIO, THRESH) };
                Policy::Match(if free >= t[0] { p[0] } else if free >= t[1] { p[1] } else { p[2] })
            }
            1 => Policy::Demote,
            2 => Policy::Steal,
            _ => Policy::Invalid,
        }
    }
}
