//! Contracts for `core/src/util.rs`.
use super::*;
use crate::verif_contracts::{clause, vcover};

/// `core::hint::spin_loop` (x86 `pause`) has no effect on program state: assumed no-op.
pub(crate) fn spin_loop_model() {}
#[kani::proof]
#[kani::unwind(6)]
#[kani::stub(core::hint::spin_loop, spin_loop_model)]
fn l0_spin_wait() {
    let n: usize = kani::any();
    kani::assume(n <= 4);
    let k: usize = kani::any();
    let mut calls = 0usize;
    let r = spin_wait(n, || {
        calls += 1;
        calls > k
    });
    clause!(calls <= n, "C21: spin_wait polls at most n times");
    clause!(r == (k < n), "spin_wait reports whether the condition became true within n polls");
}

// ---------------------------------------------------------------------------------------------
// C16: SortedBuffer
// ---------------------------------------------------------------------------------------------

/// Representation invariant: `Some`-prefix, ascending.
fn sb_inv<const N: usize, T: Ord>(b: &SortedBuffer<N, T>) -> bool {
    let mut ok = true;
    let mut seen_none = false;
    let mut i = 0;
    while i < N {
        match &b.buffer[i] {
            None => seen_none = true,
            Some(v) => {
                if seen_none {
                    ok = false;
                }
                if i > 0 {
                    if let Some(p) = &b.buffer[i - 1] {
                        if p > v {
                            ok = false;
                        }
                    }
                }
            }
        }
        i += 1;
    }
    ok
}
fn sb_len<const N: usize, T: Ord>(b: &SortedBuffer<N, T>) -> usize {
    let mut n = 0;
    let mut i = 0;
    while i < N {
        if b.buffer[i].is_some() {
            n += 1;
        }
        i += 1;
    }
    n
}
fn sb_count<const N: usize>(b: &SortedBuffer<N, u8>, k: u8) -> usize {
    let mut n = 0;
    let mut i = 0;
    while i < N {
        if b.buffer[i] == Some(k) {
            n += 1;
        }
        i += 1;
    }
    n
}
fn sb_min<const N: usize>(b: &SortedBuffer<N, u8>) -> Option<u8> {
    let mut m: Option<u8> = None;
    let mut i = 0;
    while i < N {
        if let Some(v) = b.buffer[i] {
            if m.is_none_or(|x| v < x) {
                m = Some(v);
            }
        }
        i += 1;
    }
    m
}

/// Inductive step of C16 over an arbitrary buffer state satisfying the invariant:
/// after `add(v)` the buffer holds the N greatest of `old ∪ {v}` (as a multiset), still sorted.
/// `k` is a universally quantified witness key.
fn sb_add_step<const N: usize>() {
    let mut b = SortedBuffer::<N, u8>::new();
    let mut i = 0;
    while i < N {
        b.buffer[i] = kani::any();
        i += 1;
    }
    kani::assume(sb_inv(&b));
    let v: u8 = kani::any();
    let k: u8 = kani::any();
    let old_len = sb_len(&b);
    let old_cnt = sb_count(&b, k);
    let old_min = sb_min(&b);
    vcover!(old_len == N, "buffer full");
    vcover!(old_len < N, "buffer not full");
    b.add(v);
    clause!(sb_inv(&b), "C16: buffer stays a sorted Some-prefix");
    let add_v = (v == k) as usize;
    if old_len < N {
        clause!(sb_len(&b) == old_len + 1, "C16: add into a non-full buffer keeps every element");
        clause!(sb_count(&b, k) == old_cnt + add_v, "C16: add into a non-full buffer keeps every element (multiset)");
    } else {
        // full: exactly one instance of the minimum of old ∪ {v} is dropped
        let m = old_min.map_or(v, |m| m.min(v));
        let drop_k = (k == m) as usize;
        clause!(sb_len(&b) == N, "C16: a full buffer stays full");
        clause!(sb_count(&b, k) == old_cnt + add_v - drop_k, "C16: a full buffer keeps the N highest-rated of old+new");
    }
}
/// Assumed contract of the standard library's `<[T]>::rotate_right(1)` (trusted dependency): the
/// last element moves to the front, all others shift up by one. Installed as a stub because the
/// library implementation (raw-pointer memmove with run-time sizes) is intractable for CBMC.
pub(crate) fn rotate_right_model<T>(s: &mut [T], k: usize) {
    kani::assert(k == 1, "rotate_right model: only k == 1 is used by SortedBuffer::add");
    let len = s.len();
    if len < 2 {
        return;
    }
    unsafe {
        let p = s.as_mut_ptr();
        let last = core::ptr::read(p.add(len - 1));
        let mut i = len - 1;
        while i > 0 {
            core::ptr::write(p.add(i), core::ptr::read(p.add(i - 1)));
            i -= 1;
        }
        core::ptr::write(p, last);
    }
}
/// Same for `<[T]>::rotate_left(1)`: the first element moves to the back.
pub(crate) fn rotate_left_model<T>(s: &mut [T], k: usize) {
    kani::assert(k == 1, "rotate_left model: only k == 1 is used by SortedBuffer::add");
    let len = s.len();
    if len < 2 {
        return;
    }
    unsafe {
        let p = s.as_mut_ptr();
        let first = core::ptr::read(p);
        let mut i = 0;
        while i + 1 < len {
            core::ptr::write(p.add(i), core::ptr::read(p.add(i + 1)));
            i += 1;
        }
        core::ptr::write(p.add(len - 1), first);
    }
}
macro_rules! sb_harness {
    ($name:ident, $n:expr, $unw:expr) => {
        #[kani::proof]
        #[kani::unwind($unw)]
        #[kani::stub(<[core::option::Option<u8>]>::rotate_right, rotate_right_model)]
        #[kani::stub(<[core::option::Option<u8>]>::rotate_left, rotate_left_model)]
        fn $name() {
            sb_add_step::<$n>();
        }
    };
}
sb_harness!(c16_sorted_add_n1, 1, 3);
sb_harness!(c16_sorted_add_n2, 2, 4);
sb_harness!(c16_sorted_add_n3, 3, 5);
sb_harness!(c16_sorted_add_n4, 4, 6);
sb_harness!(c16_sorted_add_n5, 5, 7);
sb_harness!(c16_sorted_add_n6, 6, 8);
sb_harness!(c16_sorted_add_n7, 7, 9);
sb_harness!(c16_sorted_add_n8, 8, 10);

/// `iter().rev()` visits the buffer from the greatest to the smallest element.
#[kani::proof]
#[kani::unwind(6)]
fn c16_sorted_iter_rev_descending() {
    let mut b = SortedBuffer::<4, u8>::new();
    let mut i = 0;
    while i < 4 {
        b.buffer[i] = kani::any();
        i += 1;
    }
    kani::assume(sb_inv(&b));
    let mut prev: Option<u8> = None;
    let mut n = 0;
    for v in b.iter().rev() {
        if let Some(p) = prev {
            clause!(*v <= p, "C16: candidates are visited best first");
        }
        prev = Some(*v);
        n += 1;
    }
    clause!(n == sb_len(&b), "C16: every remembered candidate is visited");
}
