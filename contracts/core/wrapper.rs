//! Contracts for `core/src/wrapper.rs` (C17). The inner allocator is a contract stub with arbitrary
//! results (`StubAlloc`), so the wrappers are checked against every behaviour of an inner allocator.
use super::*;
use crate::verif_contracts::{clause, vcover};
use crate::{Policy, TreeStats};

static mut LAST_GET: Option<usize> = None;
static mut LAST_GET_CALLED: bool = false;
static mut LAST_PUT: usize = 0;
static mut LAST_PUT_CALLED: bool = false;
static mut LAST_STATS_AT: usize = 0;
static mut LAST_STATS_CALLED: bool = false;
static mut INNER_GET: Result<(FrameId, Class)> = Err(Error::Memory);
static mut INNER_PUT: Result<()> = Ok(());
static mut INNER_FREE: usize = 0;
static mut NEW_FRAMES: usize = 0;
static mut NEW_INIT: u8 = 0;
static mut NEW_LOWER: (usize, usize) = (0, 0);
static mut NEW_CALLED: bool = false;

#[derive(Debug)]
struct StubAlloc {
    frames: usize,
}
unsafe impl Send for StubAlloc {}
unsafe impl Sync for StubAlloc {}
impl<'a> Alloc<'a> for StubAlloc {
    fn name() -> &'static str {
        "stub"
    }
    fn new(frames: usize, init: Init, _classing: &Classing, meta: MetaData<'a>) -> Result<Self> {
        unsafe {
            NEW_CALLED = true;
            NEW_FRAMES = frames;
            NEW_INIT = match init {
                Init::FreeAll => 0,
                Init::AllocAll => 1,
                Init::Recover => 2,
                Init::None => 3,
            };
            NEW_LOWER = (meta.lower.as_ptr() as usize, meta.lower.len());
        }
        Ok(Self { frames })
    }
    fn metadata_size(_classing: &Classing, frames: usize) -> MetaSize {
        // the real size of the lower metadata (what the persistent wrapper reserves)
        MetaSize { local: 64, trees: 64, lower: crate::lower::Lower::metadata_size(frames) }
    }
    unsafe fn metadata(&mut self) -> MetaData<'a> {
        unimplemented!()
    }
    fn get(&self, frame: Option<FrameId>, _flags: Request) -> Result<(FrameId, Class)> {
        unsafe {
            LAST_GET_CALLED = true;
            LAST_GET = frame.map(|f| f.0);
            INNER_GET
        }
    }
    fn put(&self, frame: FrameId, _flags: Request) -> Result<()> {
        unsafe {
            LAST_PUT_CALLED = true;
            LAST_PUT = frame.0;
            INNER_PUT
        }
    }
    fn frames(&self) -> usize {
        self.frames
    }
    fn tree_stats(&self) -> TreeStats {
        TreeStats::default()
    }
    fn stats(&self) -> Stats {
        Stats::default()
    }
    fn stats_at(&self, frame: FrameId, _order: usize) -> Stats {
        unsafe {
            LAST_STATS_CALLED = true;
            LAST_STATS_AT = frame.0;
            Stats { free_frames: INNER_FREE, free_huge: 0, free_trees: 0 }
        }
    }
}

fn any_result_get(frames: usize) -> Result<(FrameId, Class)> {
    if kani::any() {
        let f: usize = kani::any();
        kani::assume(f < frames);
        let c: u8 = kani::any();
        Ok((FrameId(f), Class(c)))
    } else if kani::any() {
        Err(Error::Memory)
    } else {
        Err(Error::Argument)
    }
}

/// ZoneAlloc::get / put / stats_at: frames are translated by exactly the offset, frames below the
/// offset are rejected without reaching the inner allocator.
#[kani::proof]
fn c17_zone_translation() {
    let frames: usize = kani::any();
    let offset: usize = kani::any();
    kani::assume(frames <= (1 << 40) && offset <= (1 << 50));
    let z = ZoneAlloc { alloc: StubAlloc { frames }, offset, _p: PhantomData };
    let inner = any_result_get(frames);
    let inner_put: Result<()> = if kani::any() { Ok(()) } else { Err(Error::Memory) };
    let inner_free: usize = kani::any();
    unsafe {
        INNER_GET = inner;
        INNER_PUT = inner_put;
        INNER_FREE = inner_free;
        LAST_GET_CALLED = false;
        LAST_PUT_CALLED = false;
        LAST_STATS_CALLED = false;
    }
    let req = Request::new(0, Class(0), None);
    // get
    let target: Option<usize> = if kani::any() { Some(kani::any()) } else { None };
    let r = z.get(target.map(FrameId), req);
    vcover!(r.is_ok(), "zone get ok");
    match target {
        Some(t) if t < offset => {
            clause!(r == Err(Error::Argument), "C17: the zone wrapper rejects target frames below its offset");
            clause!(!unsafe { LAST_GET_CALLED }, "C17: a rejected request does not reach the inner allocator");
        }
        _ => {
            clause!(unsafe { LAST_GET_CALLED } && unsafe { LAST_GET } == target.map(|t| t - offset), "C17: targets are forwarded shifted down by the offset");
            match (inner, r) {
                (Ok((f, c)), Ok((g, d))) => clause!(g.0 == f.0 + offset && c.0 == d.0, "C17: the zone wrapper returns exactly the inner frame shifted by its offset"),
                (Err(e), Err(e2)) => clause!(e == e2, "C17: inner errors are forwarded"),
                _ => clause!(false, "C17: zone get changes the outcome of the inner allocator"),
            }
        }
    }
    // put
    let pf: usize = kani::any();
    let pr = z.put(FrameId(pf), req);
    if pf < offset {
        clause!(pr == Err(Error::Argument) && !unsafe { LAST_PUT_CALLED }, "C17: frees below the offset are rejected without reaching the inner allocator");
    } else {
        clause!(unsafe { LAST_PUT_CALLED } && unsafe { LAST_PUT } == pf - offset && pr == inner_put, "C17: frees are forwarded shifted down by the offset");
    }
    // stats_at
    let sf: usize = kani::any();
    let s = z.stats_at(FrameId(sf), 0);
    if sf < offset {
        clause!(s.free_frames == 0 && !unsafe { LAST_STATS_CALLED }, "C17: queries below the offset report nothing");
    } else {
        clause!(unsafe { LAST_STATS_CALLED } && unsafe { LAST_STATS_AT } == sf - offset && s.free_frames == inner_free, "C17: queries are forwarded shifted down by the offset");
    }
}

/// ZoneAlloc::create rejects offsets that are not tree aligned.
#[kani::proof]
fn c17_zone_create() {
    let offset: usize = kani::any();
    let frames: usize = kani::any();
    kani::assume(frames <= 1 << 30);
    let classing = Classing::new(&[(Class(0), 1)], Class(0), |_, _, _| Policy::Match(0));
    let mut e: [u8; 0] = [];
    let (a, b, c) = (&mut [] as &mut [u8], &mut [] as &mut [u8], &mut e[..]);
    let r = ZoneAlloc::<StubAlloc>::create(offset, frames, Init::FreeAll, &classing, MetaData { local: a, trees: b, lower: c });
    clause!(r.is_ok() == (offset % (1 << TREE_ORDER) == 0), "C17: a zone is created exactly for tree-aligned offsets");
    if let Ok(z) = r {
        clause!(z.offset == offset, "C17: the zone keeps its offset");
    }
}

// ---------------------------------------------------------------------------------------------
// NvmAlloc::create (C17): zone layout [ managed frames | lower metadata | header ], header check.
// The inner allocator is the recording stub; its lower-metadata size is the real one.
// ---------------------------------------------------------------------------------------------
const ZONE: usize = 8;

fn nvm_classing() -> Classing {
    Classing::new(&[(Class(0), 1)], Class(0), |_, _, _| Policy::Match(0))
}

#[kani::proof]
#[kani::unwind(10)]
fn c17_nvm_create_layout() {
    let mut zone: [Frame; ZONE] = core::array::from_fn(|_| Frame::new());
    let base = zone.as_ptr() as usize;
    let mut local = [0u8; 64];
    let mut trees = [0u8; 64];
    let classing = nvm_classing();
    unsafe { NEW_CALLED = false };
    let r = NvmAlloc::<StubAlloc>::create(&mut zone[..], false, &classing, &mut local[..], &mut trees[..]);
    vcover!(r.is_ok(), "zone accepted");
    if let Ok(a) = r {
        let frames = a.frames();
        let (lp, ll) = unsafe { NEW_LOWER };
        clause!(unsafe { NEW_CALLED } && unsafe { NEW_FRAMES } == frames && unsafe { NEW_INIT } == 0, "C17: create initialises the inner allocator (free-all) over the managed frames");
        clause!(frames + 2 <= ZONE, "C17: the managed range leaves room for the lower metadata and the header page");
        clause!(lp >= base + frames * Frame::SIZE, "C17: the lower metadata starts behind the managed frames (no handed-out frame overlaps it)");
        clause!(lp + ll <= base + (ZONE - 1) * Frame::SIZE, "C17: the lower metadata does not reach into the header page");
        clause!(ll >= crate::lower::Lower::metadata_size(frames), "C17: the lower metadata is large enough for the managed frames");
        clause!(a.alloc.offset == base / Frame::SIZE, "C17: the zone offset is the frame number of the zone's first frame");
    }
}

/// Recovery refuses a region without an instance of the same size; recovers an instance it created
/// with the same managed frame count and the same lower-metadata location (Init::Recover).
#[kani::proof]
#[kani::unwind(10)]
fn c17_nvm_recover_header() {
    let mut zone: [Frame; ZONE] = core::array::from_fn(|_| Frame::new());
    let mut local = [0u8; 64];
    let mut trees = [0u8; 64];
    let classing = nvm_classing();
    // arbitrary header contents
    let magic: usize = kani::any();
    let hframes: usize = kani::any();
    {
        let meta = zone[ZONE - 1].cast_mut::<Meta>();
        meta.magic.store(magic, Release);
        meta.frames.store(hframes, Release);
    }
    unsafe { NEW_CALLED = false };
    let r = NvmAlloc::<StubAlloc>::create(&mut zone[..], true, &classing, &mut local[..], &mut trees[..]);
    vcover!(r.is_ok(), "instance recovered");
    vcover!(r.is_err(), "recovery refused");
    if r.is_ok() {
        clause!(magic == Meta::MAGIC && hframes == ZONE - 1, "C17: recovery is refused unless the region holds an instance of the same size");
        clause!(unsafe { NEW_CALLED } && unsafe { NEW_INIT } == 2, "C17: recovery rebuilds the inner allocator in recover mode");
    } else if magic != Meta::MAGIC || hframes != ZONE - 1 {
        clause!(!unsafe { NEW_CALLED }, "C17: a refused recovery does not touch the region");
    }
}
