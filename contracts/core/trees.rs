//! Contracts for `core/src/trees.rs` (child module: sees `Tree`, `Trees { entries, default }`).
use super::*;
use crate::verif_contracts::{any_class, clause, gpolicy, vcover};

// ---------------------------------------------------------------------------------------------
// L0: the tree word. `Tree` is a u32 bitfield: free:28 | reserved:1 | class:3.
// ---------------------------------------------------------------------------------------------

/// Type invariant of a tree word as the allocator maintains it.
pub(crate) fn tree_wf(t: Tree) -> bool {
    t.free() <= TREE_FRAMES
}
pub(crate) fn any_tree() -> Tree {
    let t = Tree::from_bits(kani::any());
    kani::assume(tree_wf(t));
    t
}
fn same_tree(a: Tree, b: Tree) -> bool {
    a.into_bits() == b.into_bits()
}

/// `Tree::with`: fields are stored exactly.
#[kani::proof]
fn l0_tree_with() {
    let free: usize = kani::any();
    kani::assume(free <= TREE_FRAMES);
    let reserved: bool = kani::any();
    let class = any_class();
    let t = Tree::with(free, reserved, class);
    clause!(t.free() == free && t.reserved() == reserved && t.class().0 == class.0, "Tree::with stores its fields");
}

/// `Tree::steal` (C13, C15): decrements iff enough free, unreserved and policy not Invalid;
/// the new class is the requested one, or the tree's own class exactly when the policy says Steal.
#[kani::proof]
#[kani::unwind(8)]
fn l0_tree_steal() {
    let t = any_tree();
    let class = any_class();
    let n: usize = kani::any();
    kani::assume(n >= 1 && n <= TREE_FRAMES);
    let r = t.steal(class, n, gpolicy::policy);
    let p = gpolicy::policy(class, t.class(), n);
    vcover!(r.is_some(), "steal succeeds");
    vcover!(r.is_none(), "steal fails");
    let should = t.free() >= n && !t.reserved() && p != Policy::Invalid;
    clause!(r.is_some() == should, "Tree::steal succeeds iff free>=n, unreserved, policy not Invalid");
    if let Some(t2) = r {
        clause!(t2.free() == t.free() - n, "Tree::steal decrements by exactly n");
        clause!(!t2.reserved(), "Tree::steal never yields a reserved tree");
        clause!(t2.free() > 0 || t.free() == n, "Tree::steal: an offline/empty tree (free 0) is never stolen from");
        let c2 = t2.class().0;
        clause!(c2 == class.0 || (c2 == t.class().0 && p == Policy::Steal),
            "C13: class after steal is the requested class or the tree class under Policy::Steal");
    }
}

/// `Tree::reserve_or_steal` (C13): reserve (Match/Demote) or steal (Steal), never from reserved trees.
#[kani::proof]
#[kani::unwind(8)]
fn l0_tree_reserve_or_steal() {
    let t = any_tree();
    let class = any_class();
    let n: usize = kani::any();
    kani::assume(n >= 1 && n <= TREE_FRAMES);
    let r = t.reserve_or_steal(n, gpolicy::policy, class);
    let p = gpolicy::policy(class, t.class(), n);
    vcover!(r.is_some_and(|t| t.reserved()), "reserve");
    vcover!(r.is_some_and(|t| !t.reserved()), "steal");
    vcover!(r.is_none(), "fail");
    let should = t.free() >= n && !t.reserved() && p != Policy::Invalid;
    clause!(r.is_some() == should, "Tree::reserve_or_steal succeeds iff free>=n, unreserved, policy not Invalid");
    if let Some(t2) = r {
        match p {
            Policy::Match(_) | Policy::Demote => {
                clause!(t2.reserved() && t2.free() == 0, "reserve: entry becomes reserved with counter 0 (all frames move to the slot)");
                clause!(t2.class().0 == class.0, "C13: reserved tree takes the requested class");
            }
            _ => {
                clause!(p == Policy::Steal, "steal branch only under Policy::Steal");
                clause!(!t2.reserved() && t2.free() == t.free() - n, "steal: decrement by n, stays unreserved");
                clause!(t2.class().0 == t.class().0, "C13: stolen-from tree keeps its class");
            }
        }
    }
}

/// `Tree::put`: counter grows by n; an entirely free tree returns to the default class unless the
/// policy forbids it. Precondition from the code's own assert: no counter overflow.
#[kani::proof]
#[kani::unwind(8)]
fn l0_tree_put() {
    let t = any_tree();
    let n: usize = kani::any();
    let default = any_class();
    kani::assume(n <= TREE_FRAMES && t.free() + n <= TREE_FRAMES);
    let t2 = t.put(n, gpolicy::policy, default);
    clause!(t2.free() == t.free() + n, "Tree::put adds exactly n");
    clause!(t2.reserved() == t.reserved(), "Tree::put keeps the reserved flag");
    let reset = t2.free() == TREE_FRAMES && gpolicy::policy(t.class(), default, TREE_FRAMES) != Policy::Invalid;
    clause!(t2.class().0 == if reset { default.0 } else { t.class().0 }, "Tree::put resets the class only for an entirely free tree");
}

/// `Tree::unreserve_add`. Precondition (what every call site must establish, see invariant I):
/// policy(slot class, tree class, free) is Match or Demote, and no counter overflow.
#[kani::proof]
#[kani::unwind(8)]
fn l0_tree_unreserve_add() {
    let t = any_tree();
    let n: usize = kani::any();
    let class = any_class();
    let default = any_class();
    kani::assume(n <= TREE_FRAMES && t.free() + n <= TREE_FRAMES);
    let p = gpolicy::policy(class, t.class(), n);
    kani::assume(!t.reserved() || matches!(p, Policy::Match(_) | Policy::Demote));
    let r = t.unreserve_add(n, class, gpolicy::policy, default);
    vcover!(r.is_some(), "unreserve ok");
    clause!(r.is_some() == t.reserved(), "Tree::unreserve_add succeeds iff the entry is reserved");
    if let Some(t2) = r {
        clause!(!t2.reserved(), "unreserved afterwards");
        clause!(t2.free() == t.free() + n, "slot counter is added to the global counter");
    }
}

/// `Tree::sync_steal` (C11): postcondition taken from the statement — the sync succeeds exactly when
/// the entry is reserved and its global counter covers what the slot is missing (`free >= min`).
#[kani::proof]
fn l0_tree_sync_steal() {
    let t = any_tree();
    let min: usize = kani::any();
    let r = t.sync_steal(min);
    vcover!(r.is_some(), "sync ok");
    vcover!(r.is_none(), "sync fails");
    clause!(r.is_some() == (t.reserved() && t.free() >= min), "C11: sync succeeds iff reserved and global counter >= missing frames");
    if let Some(t2) = r {
        clause!(t2.free() == 0 && t2.reserved() && t2.class().0 == t.class().0, "sync moves the whole counter, keeps flag and class");
    }
}

/// `Tree::change` (C15).
#[kani::proof]
fn l0_tree_change() {
    let t = any_tree();
    let m_class: Option<Class> = if kani::any() { Some(any_class()) } else { None };
    let m_free: usize = kani::any();
    let c_class: Option<Class> = if kani::any() { Some(any_class()) } else { None };
    let opk: u8 = kani::any();
    kani::assume(opk < 3);
    let op = match opk { 0 => None, 1 => Some(TreeOperation::Online), _ => Some(TreeOperation::Offline) };
    let fetched: usize = kani::any();
    kani::assume(fetched <= TREE_FRAMES);
    let r = t.change(m_class, m_free, TreeChange { class: c_class, operation: op.clone() }, || fetched);
    let matches = !t.reserved() && m_class.is_none_or(|k| k.0 == t.class().0) && t.free() >= m_free;
    vcover!(r.is_some(), "change applies");
    vcover!(r.is_none(), "change refused");
    if !matches {
        clause!(r.is_none(), "C15: changes never apply to reserved trees or trees that do not match");
    }
    if let Some(t2) = r {
        clause!(matches, "C15: change applied only to a matching unreserved tree");
        clause!(!t2.reserved(), "change keeps the tree unreserved");
        clause!(t2.class().0 == c_class.map_or(t.class().0, |c| c.0), "C15: class as requested (or unchanged)");
        match op {
            Some(TreeOperation::Offline) => clause!(t2.free() == 0, "C15: offline sets the counter to 0"),
            Some(TreeOperation::Online) => {
                clause!(t.free() == 0, "C15: online only from counter 0");
                clause!(t2.free() == fetched, "C15: online restores the counter from the lower allocator");
            }
            None => clause!(t2.free() == t.free(), "class change keeps the counter"),
        }
    } else if matches {
        clause!(op == Some(TreeOperation::Online) && t.free() != 0, "C15: a matching change is refused only when onlining a non-empty tree");
    }
}
