//! Contracts for `core/src/trees.rs` (child module: sees `Tree`, `Trees { entries, default }`).
use super::*;
use crate::verif_contracts::{any_class, clause, gpolicy, vcover};

// ---------------------------------------------------------------------------------------------
// L0: the tree word. `Tree` is a u32 bitfield: free:28 | reserved:1 | class:3.
// ---------------------------------------------------------------------------------------------

/// Type invariant of a tree word as the allocator maintains it.
pub(crate) fn tree_wf(t: Tree) -> bool {
    t.free() <= TREE_FRAMES
}
pub(crate) fn any_tree() -> Tree {
    let t = Tree::from_bits(kani::any());
    kani::assume(tree_wf(t));
    t
}
fn same_tree(a: Tree, b: Tree) -> bool {
    a.into_bits() == b.into_bits()
}

/// `Tree::with`: fields are stored exactly.
#[kani::proof]
fn l0_tree_with() {
    let free: usize = kani::any();
    kani::assume(free <= TREE_FRAMES);
    let reserved: bool = kani::any();
    let class = any_class();
    let t = Tree::with(free, reserved, class);
    clause!(t.free() == free && t.reserved() == reserved && t.class().0 == class.0, "Tree::with stores its fields");
}

/// `Tree::steal` (C13, C15): decrements iff enough free, unreserved and policy not Invalid;
/// the new class is the requested one, or the tree's own class exactly when the policy says Steal.
#[kani::proof]
#[kani::unwind(8)]
fn l0_tree_steal() {
    let t = any_tree();
    let class = any_class();
    let n: usize = kani::any();
    kani::assume(n >= 1 && n <= TREE_FRAMES);
    let r = t.steal(class, n, gpolicy::policy);
    let p = gpolicy::policy(class, t.class(), n);
    vcover!(r.is_some(), "steal succeeds");
    vcover!(r.is_none(), "steal fails");
    let should = t.free() >= n && !t.reserved() && p != Policy::Invalid;
    clause!(r.is_some() == should, "Tree::steal succeeds iff free>=n, unreserved, policy not Invalid");
    if let Some(t2) = r {
        clause!(t2.free() == t.free() - n, "Tree::steal decrements by exactly n");
        clause!(!t2.reserved(), "Tree::steal never yields a reserved tree");
        clause!(t2.free() > 0 || t.free() == n, "Tree::steal: an offline/empty tree (free 0) is never stolen from");
        let c2 = t2.class().0;
        clause!(c2 == class.0 || (c2 == t.class().0 && p == Policy::Steal),
            "C13: class after steal is the requested class or the tree class under Policy::Steal");
    }
}

/// `Tree::reserve_or_steal` (C13): reserve (Match/Demote) or steal (Steal), never from reserved trees.
#[kani::proof]
#[kani::unwind(8)]
fn l0_tree_reserve_or_steal() {
    let t = any_tree();
    let class = any_class();
    let n: usize = kani::any();
    kani::assume(n >= 1 && n <= TREE_FRAMES);
    let r = t.reserve_or_steal(n, gpolicy::policy, class);
    let p = gpolicy::policy(class, t.class(), n);
    vcover!(r.is_some_and(|t| t.reserved()), "reserve");
    vcover!(r.is_some_and(|t| !t.reserved()), "steal");
    vcover!(r.is_none(), "fail");
    let should = t.free() >= n && !t.reserved() && p != Policy::Invalid;
    clause!(r.is_some() == should, "Tree::reserve_or_steal succeeds iff free>=n, unreserved, policy not Invalid");
    if let Some(t2) = r {
        match p {
            Policy::Match(_) | Policy::Demote => {
                clause!(t2.reserved() && t2.free() == 0, "reserve: entry becomes reserved with counter 0 (all frames move to the slot)");
                clause!(t2.class().0 == class.0, "C13: reserved tree takes the requested class");
            }
            _ => {
                clause!(p == Policy::Steal, "steal branch only under Policy::Steal");
                clause!(!t2.reserved() && t2.free() == t.free() - n, "steal: decrement by n, stays unreserved");
                clause!(t2.class().0 == t.class().0, "C13: stolen-from tree keeps its class");
            }
        }
    }
}

/// `Tree::put`: counter grows by n; an entirely free tree returns to the default class unless the
/// policy forbids it. Precondition from the code's own assert: no counter overflow.
#[kani::proof]
#[kani::unwind(8)]
fn l0_tree_put() {
    let t = any_tree();
    let n: usize = kani::any();
    let default = any_class();
    kani::assume(n <= TREE_FRAMES && t.free() + n <= TREE_FRAMES);
    let t2 = t.put(n, gpolicy::policy, default);
    clause!(t2.free() == t.free() + n, "Tree::put adds exactly n");
    clause!(t2.reserved() == t.reserved(), "Tree::put keeps the reserved flag");
    let reset = t2.free() == TREE_FRAMES && !t.reserved() && gpolicy::policy(t.class(), default, TREE_FRAMES) != Policy::Invalid;
    clause!(t2.class().0 == if reset { default.0 } else { t.class().0 }, "Tree::put resets the class only for an entirely free, unreserved tree");
    clause!(!t.reserved() || t2.class().0 == t.class().0, "C09: a reserved tree keeps its class (it must stay compatible with the slot that holds it)");
}

/// `Tree::unreserve_add`. Precondition (what every call site must establish, see invariant I):
/// policy(slot class, tree class, free) is Match or Demote, and no counter overflow.
#[kani::proof]
#[kani::unwind(8)]
fn l0_tree_unreserve_add() {
    let t = any_tree();
    let n: usize = kani::any();
    let class = any_class();
    let default = any_class();
    kani::assume(n <= TREE_FRAMES && t.free() + n <= TREE_FRAMES);
    let p = gpolicy::policy(class, t.class(), n);
    kani::assume(!t.reserved() || matches!(p, Policy::Match(_) | Policy::Demote));
    let r = t.unreserve_add(n, class, gpolicy::policy, default);
    vcover!(r.is_some(), "unreserve ok");
    clause!(r.is_some() == t.reserved(), "Tree::unreserve_add succeeds iff the entry is reserved");
    if let Some(t2) = r {
        clause!(!t2.reserved(), "unreserved afterwards");
        clause!(t2.free() == t.free() + n, "slot counter is added to the global counter");
    }
}

/// `Tree::sync_steal` (C11): postcondition taken from the statement — the sync succeeds exactly when
/// the entry is reserved and its global counter covers what the slot is missing (`free >= min`).
#[kani::proof]
fn l0_tree_sync_steal() {
    let t = any_tree();
    let min: usize = kani::any();
    let r = t.sync_steal(min);
    vcover!(r.is_some(), "sync ok");
    vcover!(r.is_none(), "sync fails");
    clause!(r.is_some() == (t.reserved() && t.free() >= min), "C11: sync succeeds iff reserved and global counter >= missing frames");
    if let Some(t2) = r {
        clause!(t2.free() == 0 && t2.reserved() && t2.class().0 == t.class().0, "sync moves the whole counter, keeps flag and class");
    }
}

/// `Tree::change` (C15).
#[kani::proof]
fn l0_tree_change() {
    let t = any_tree();
    let m_class: Option<Class> = if kani::any() { Some(any_class()) } else { None };
    let m_free: usize = kani::any();
    let c_class: Option<Class> = if kani::any() { Some(any_class()) } else { None };
    let opk: u8 = kani::any();
    kani::assume(opk < 3);
    let op = match opk { 0 => None, 1 => Some(TreeOperation::Online), _ => Some(TreeOperation::Offline) };
    let fetched: usize = kani::any();
    kani::assume(fetched <= TREE_FRAMES);
    let r = t.change(m_class, m_free, TreeChange { class: c_class, operation: op.clone() }, || fetched);
    let matches = !t.reserved() && m_class.is_none_or(|k| k.0 == t.class().0) && t.free() >= m_free;
    vcover!(r.is_some(), "change applies");
    vcover!(r.is_none(), "change refused");
    if !matches {
        clause!(r.is_none(), "C15: changes never apply to reserved trees or trees that do not match");
    }
    if let Some(t2) = r {
        clause!(matches, "C15: change applied only to a matching unreserved tree");
        clause!(!t2.reserved(), "change keeps the tree unreserved");
        clause!(t2.class().0 == c_class.map_or(t.class().0, |c| c.0), "C15: class as requested (or unchanged)");
        match op {
            Some(TreeOperation::Offline) => clause!(t2.free() == 0, "C15: offline sets the counter to 0"),
            Some(TreeOperation::Online) => {
                clause!(t.free() == 0, "C15: online only from counter 0");
                clause!(t2.free() == fetched, "C15: online restores the counter from the lower allocator");
            }
            None => clause!(t2.free() == t.free(), "class change keeps the counter"),
        }
    } else if matches {
        clause!(op == Some(TreeOperation::Online) && t.free() != 0, "C15: a matching change is refused only when onlining a non-empty tree");
    }
}

// ---------------------------------------------------------------------------------------------
// Helpers for the allocator-level obligations (private fields of `Trees`).
// ---------------------------------------------------------------------------------------------
pub(crate) fn make_trees<'a>(entries: &'a [Atom<Tree>], default: Class) -> Trees<'a> {
    Trees { entries, default }
}
fn new_entry(bits: u32) -> Atom<Tree> {
    Atom::new(Tree::from_bits(bits))
}
/// Run `f` on a tree array holding the given raw words (the entry type is private to this module).
pub(crate) fn with_trees<const N: usize, R>(words: &[u32; N], default: Class, f: impl FnOnce(Trees<'_>) -> R) -> R {
    let entries: [Atom<Tree>; N] = core::array::from_fn(|i| new_entry(words[i]));
    f(Trees { entries: &entries, default })
}
pub(crate) fn tree_word(t: &Trees, i: usize) -> (usize, bool, u8) {
    let w = t.entries[i].load();
    (w.free(), w.reserved(), w.class().0)
}
pub(crate) fn word_wf(bits: u32) -> bool {
    tree_wf(Tree::from_bits(bits))
}

// ---------------------------------------------------------------------------------------------
// C16: Trees::search_best — after the scan, the remembered candidates are the N best-rated
// non-perfect ones and are tried best first; perfect matches are tried during the scan.
// ---------------------------------------------------------------------------------------------
const SB_TREES: usize = 4;
static mut VISITS: [usize; 16] = [0; 16];
static mut NVISITS: usize = 0;
static mut RATE: [u8; SB_TREES] = [0; SB_TREES]; // per-tree rating code chosen by the harness
static mut RATE_M: [u8; SB_TREES] = [0; SB_TREES];

fn rotate_right_model<T>(s: &mut [T], k: usize) {
    kani::assert(k == 1, "rotate_right model: k == 1");
    let len = s.len();
    if len < 2 {
        return;
    }
    unsafe {
        let p = s.as_mut_ptr();
        let last = core::ptr::read(p.add(len - 1));
        let mut i = len - 1;
        while i > 0 {
            core::ptr::write(p.add(i), core::ptr::read(p.add(i - 1)));
            i -= 1;
        }
        core::ptr::write(p, last);
    }
}
fn rotate_left_model<T>(s: &mut [T], k: usize) {
    kani::assert(k == 1, "rotate_left model: k == 1");
    let len = s.len();
    if len < 2 {
        return;
    }
    unsafe {
        let p = s.as_mut_ptr();
        let first = core::ptr::read(p);
        let mut i = 0;
        while i + 1 < len {
            core::ptr::write(p.add(i), core::ptr::read(p.add(i + 1)));
            i += 1;
        }
        core::ptr::write(p.add(len - 1), first);
    }
}
fn code_policy(code: u8, m: u8) -> Policy {
    match code {
        0 => Policy::Match(m),
        1 => Policy::Demote,
        2 => Policy::Steal,
        _ => Policy::Invalid,
    }
}

fn check_search_best<const N: usize>() {
    // every tree carries a distinct free count, so that the rating closure can tell them apart
    let words: [u32; SB_TREES] = kani::any();
    let entries: [Atom<Tree>; SB_TREES] = core::array::from_fn(|i| new_entry(words[i]));
    let mut i = 0;
    while i < SB_TREES {
        let t = Tree::from_bits(words[i]);
        kani::assume(tree_wf(t) && t.free() == i + 1);
        i += 1;
    }
    let rate_code: [u8; SB_TREES] = kani::any();
    let rate_m: [u8; SB_TREES] = kani::any();
    let mut i = 0;
    while i < SB_TREES {
        kani::assume(rate_code[i] < 4);
        i += 1;
    }
    unsafe {
        RATE = rate_code;
        RATE_M = rate_m;
        NVISITS = 0;
    }
    let trees = make_trees(&entries, Class(0));
    let start: usize = kani::any();
    kani::assume(start < SB_TREES);
    let r: Result<()> = trees.search_best::<N, ()>(
        TreeId(start),
        0,
        SB_TREES,
        |_class, free| unsafe { code_policy(RATE[free - 1], RATE_M[free - 1]) },
        |i| unsafe {
            VISITS[NVISITS] = i.0;
            NVISITS += 1;
            Err(Error::Memory)
        },
    );
    clause!(r.is_err(), "search_best reports Memory when every access fails");
    let n = unsafe { NVISITS };
    let visits = unsafe { VISITS };
    let key = |t: usize| (code_policy(rate_code[t], rate_m[t]), false);
    let perfect = |t: usize| rate_code[t] == 0 && rate_m[t] == u8::MAX;
    let candidate = |t: usize| !Tree::from_bits(words[t]).reserved() && rate_code[t] != 3;
    // split the visit sequence: perfect matches (during the scan) first, remembered ones after
    let mut n_perfect = 0;
    let mut t = 0;
    while t < SB_TREES {
        if candidate(t) && perfect(t) {
            n_perfect += 1;
        }
        t += 1;
    }
    let mut n_fallback = 0;
    let mut t = 0;
    while t < SB_TREES {
        if candidate(t) && !perfect(t) {
            n_fallback += 1;
        }
        t += 1;
    }
    vcover!(n_fallback > N, "more fallback candidates than the buffer holds");
    clause!(n == n_perfect + if n_fallback < N { n_fallback } else { N }, "C16: every perfect match and the N best fallback candidates are tried");
    let mut j = 0;
    while j < n {
        let v = visits[j];
        clause!(v < SB_TREES && candidate(v), "C16: only acceptable unreserved trees are tried");
        if j < n_perfect {
            clause!(perfect(v), "C16: perfect matches are tried during the scan");
        } else {
            clause!(!perfect(v), "C16: remembered candidates are the imperfect ones");
            if j + 1 < n {
                clause!(key(visits[j + 1]) <= key(v), "C16: remembered candidates are tried from best to worst");
            }
        }
        let mut l = j + 1;
        while l < n {
            clause!(visits[l] != v, "C16: no tree is tried twice");
            l += 1;
        }
        j += 1;
    }
    // universally quantified witness: an acceptable imperfect tree that was not tried is rated no
    // better than every remembered one
    let w: usize = kani::any();
    kani::assume(w < SB_TREES && candidate(w) && !perfect(w));
    let mut tried = false;
    let mut j = 0;
    while j < n {
        if visits[j] == w {
            tried = true;
        }
        j += 1;
    }
    if !tried {
        let mut j = n_perfect;
        while j < n {
            clause!(key(w) <= key(visits[j]), "C16: the search keeps the highest-rated fallback candidates");
            j += 1;
        }
    }
}
#[kani::proof]
#[kani::unwind(8)]
#[kani::stub(<[core::option::Option<crate::util::OrdBy<(Policy, bool), TreeId>>]>::rotate_right, rotate_right_model)]
#[kani::stub(<[core::option::Option<crate::util::OrdBy<(Policy, bool), TreeId>>]>::rotate_left, rotate_left_model)]
fn c16_search_best_n2() {
    check_search_best::<2>();
}
#[kani::proof]
#[kani::unwind(8)]
#[kani::stub(<[core::option::Option<crate::util::OrdBy<(Policy, bool), TreeId>>]>::rotate_right, rotate_right_model)]
#[kani::stub(<[core::option::Option<crate::util::OrdBy<(Policy, bool), TreeId>>]>::rotate_left, rotate_left_model)]
fn c16_search_best_n3() {
    check_search_best::<3>();
}
pub(crate) fn set_tree_word(t: &Trees, i: usize, bits: u32) {
    t.entries[i].store(Tree::from_bits(bits));
}

// ---------------------------------------------------------------------------------------------
// Contract of `Trees::search_best` as seen by its callers (allocator level), and its stub.
//   * `access` is only called with tree ids inside the array, on trees that were unreserved and not
//     rated Invalid when scanned;
//   * the result is the first result of `access` that is not Err(Memory); if every call reports
//     Err(Memory) (or none is made) the result is Err(Memory).
// The stub makes at most SB_STUB_CALLS calls on arbitrary in-range ids. For callers whose `access`
// is itself replaced by the generic helper contract G (havoc under invariant I; an Err(Memory)
// outcome leaves every lower-level counter unchanged) any longer sequence of failing calls is
// equivalent to one failing call, so two calls over-approximate every real sequence.
// ---------------------------------------------------------------------------------------------
pub(crate) const SB_STUB_CALLS: usize = 2;
impl Trees<'_> {
    pub(crate) fn search_best_contract<const N: usize, R>(
        &self,
        start: TreeId,
        _offset: usize,
        len: usize,
        _rate: impl Fn(Class, usize) -> Policy,
        access: impl Fn(TreeId) -> Result<R>,
    ) -> Result<R> {
        kani::assert(start.0 < (1usize << 62), "search_best precondition: start index does not overflow the signed offset arithmetic");
        if self.entries.len() == 0 || _offset >= len {
            return Err(Error::Memory);
        }
        let mut k = 0;
        while k < SB_STUB_CALLS {
            if kani::any() {
                let i: usize = kani::any();
                kani::assume(i < self.entries.len());
                match access(TreeId(i)) {
                    Err(Error::Memory) => {}
                    r => return r,
                }
            }
            k += 1;
        }
        Err(Error::Memory)
    }
}

/// `search_best` against the result part of that contract: the visit sequence stops at the first
/// access that does not report Err(Memory) and its result is returned; ids stay in range.
static mut ACC_RES: [u8; 16] = [0; 16];
fn check_search_best_result<const N: usize>() {
    let words: [u32; SB_TREES] = kani::any();
    let entries: [Atom<Tree>; SB_TREES] = core::array::from_fn(|i| new_entry(words[i]));
    let mut i = 0;
    while i < SB_TREES {
        let t = Tree::from_bits(words[i]);
        kani::assume(tree_wf(t) && t.free() == i + 1);
        i += 1;
    }
    let rate_code: [u8; SB_TREES] = kani::any();
    let rate_m: [u8; SB_TREES] = kani::any();
    let acc: [u8; 16] = kani::any(); // per visit: 0 = Err(Memory), 1 = Ok, 2 = Err(Argument)
    let mut i = 0;
    while i < SB_TREES {
        kani::assume(rate_code[i] < 4);
        i += 1;
    }
    unsafe {
        RATE = rate_code;
        RATE_M = rate_m;
        NVISITS = 0;
        ACC_RES = acc;
    }
    let trees = make_trees(&entries, Class(0));
    let start: usize = kani::any();
    kani::assume(start < SB_TREES);
    let r: Result<usize> = trees.search_best::<N, usize>(
        TreeId(start),
        0,
        SB_TREES,
        |_class, free| unsafe { code_policy(RATE[free - 1], RATE_M[free - 1]) },
        |i| unsafe {
            let k = NVISITS;
            VISITS[k] = i.0;
            NVISITS += 1;
            match ACC_RES[k] % 3 {
                0 => Err(Error::Memory),
                1 => Ok(k),
                _ => Err(Error::Argument),
            }
        },
    );
    let n = unsafe { NVISITS };
    let visits = unsafe { VISITS };
    let mut j = 0;
    while j < n {
        clause!(visits[j] < SB_TREES, "search_best calls access only with tree ids inside the array");
        clause!(!Tree::from_bits(words[visits[j]]).reserved() && rate_code[visits[j]] != 3, "search_best never accesses reserved or Invalid-rated trees");
        if j + 1 < n {
            clause!(acc[j] % 3 == 0, "search_best continues only after Err(Memory)");
        }
        j += 1;
    }
    match r {
        Ok(k) => clause!(n >= 1 && k == n - 1 && acc[k] % 3 == 1, "search_best returns the first successful access"),
        Err(Error::Memory) => clause!(n == 0 || acc[n - 1] % 3 == 0, "search_best reports Memory only if every access did"),
        Err(_) => clause!(n >= 1 && acc[n - 1] % 3 == 2, "search_best propagates the first other error"),
    }
}
#[kani::proof]
#[kani::unwind(8)]
#[kani::stub(<[core::option::Option<crate::util::OrdBy<(Policy, bool), TreeId>>]>::rotate_right, rotate_right_model)]
#[kani::stub(<[core::option::Option<crate::util::OrdBy<(Policy, bool), TreeId>>]>::rotate_left, rotate_left_model)]
fn l1b_search_best_result_n3() {
    check_search_best_result::<3>();
}

/// `search_best` as seen by the completeness obligations (C10/C11): every unreserved tree that the
/// rating does not reject is accessed (in some order) until an access does not report Err(Memory).
/// Justified by c16_search_best_n* (every acceptable candidate is tried when the fallback candidates
/// fit into the buffer: here the tree array is not longer than the smallest buffer used, N = 3) and
/// l1b_search_best_result_n3 (result = first access result that is not Err(Memory)). The near-search of
/// `search_and_reserve` covers only part of the array in general; modelling it as complete only adds
/// failing visits (which change nothing, see C0) before the global search that does cover everything.
impl Trees<'_> {
    pub(crate) fn search_best_complete<const N: usize, R>(
        &self,
        start: TreeId,
        offset: usize,
        len: usize,
        rate: impl Fn(Class, usize) -> Policy,
        access: impl Fn(TreeId) -> Result<R>,
    ) -> Result<R> {
        kani::assert(start.0 < (1usize << 62), "search_best precondition: start index does not overflow");
        kani::assert(self.entries.len() <= 3, "completeness stub: the tree array fits into the smallest candidate buffer");
        if offset >= len {
            return Err(Error::Memory);
        }
        let mut i = 0;
        while i < self.entries.len() {
            let t = self.entries[i].load();
            if !t.reserved() && rate(t.class(), t.free()) != Policy::Invalid {
                match access(TreeId(i)) {
                    Err(Error::Memory) => {}
                    r => return r,
                }
            }
            i += 1;
        }
        Err(Error::Memory)
    }
}

/// `Trees::metadata_size` (C18): the tree array needs one 4-byte entry per (possibly partial) tree; the
/// buffer size is cache-line rounded. Independent of the function itself (spec: ceil division).
#[kani::proof]
fn l0_trees_metadata_size() {
    let frames: usize = kani::any();
    kani::assume(frames <= (1usize << 44));
    let n = Trees::metadata_size(frames);
    let trees = frames / TREE_FRAMES + (frames % TREE_FRAMES != 0) as usize;
    clause!(n >= trees * core::mem::size_of::<Atom<Tree>>(), "C18: the tree metadata holds one entry for every tree, the partial last tree included");
    clause!(n % 64 == 0, "C18: the tree metadata size is cache-line rounded");
    clause!(n < trees * core::mem::size_of::<Atom<Tree>>() + 64, "C18: the tree metadata size is the rounded-up array size, not more");
}
