//! Contracts for `core/src/llfree.rs` (allocator level, L2). The lower allocator is used through
//! the contracts of its public functions over the ghost view in `lower::verif_contracts::ghost`.
use super::*;
use crate::local::verif_contracts::{set_slot, slot_fields, slot_word, slot_wf, SLOT_BYTES};
use crate::lower::verif_contracts::{ghost, ghost_lower};
use crate::trees::verif_contracts::{tree_word, with_trees};
use crate::verif_contracts::{clause, kpolicy, vcover};

pub(crate) const L2T: usize = 2; // trees in the L2 configuration
const MAXC: usize = 3;

#[repr(align(64))]
struct SlotBuf([u8; SLOT_BYTES * MAXC]);

/// Frames cut off the end of the managed range (0 = two whole trees); lets the argument check be
/// exercised on ranges that are not a multiple of the block size.
static mut FRAMES_CUT: usize = 0;
/// A class id below NC that is left unconfigured (non-contiguous class ids); usize::MAX = none.
static mut GAP_CLASS: usize = usize::MAX;
/// Ghost set of offline trees.
static mut OFFLINE: [bool; L2T] = [false; L2T];

/// Symbolic upper state: tree words, slot words (one slot per class, classes 0..NC), ghost lower.
struct Cfg<const NC: usize> {
    words: [u32; L2T],
    slots: [u64; NC],
    lf: [usize; L2T],
    offline: [bool; L2T],
    default: Class,
    /// number of slots of the last class (0 = a class without local slots)
    last_slots: usize,
}

fn any_cfg<const NC: usize>(zero_slot_last: bool) -> Cfg<NC> {
    let d: u8 = kani::any();
    kani::assume((d as usize) < NC);
    Cfg { words: kani::any(), slots: kani::any(), lf: kani::any(), offline: kani::any(), default: Class(d), last_slots: if zero_slot_last { 0 } else { 1 } }
}
fn nslots<const NC: usize>(c: &Cfg<NC>, class: usize) -> usize {
    if class == NC - 1 { c.last_slots } else { 1 }
}

/// Upper invariant I (DESIGN.md 3.1) over words, slots and the ghost lower view.
fn inv<const NC: usize>(words: &[u32; L2T], slots: &[u64; NC], lf: &[usize; L2T], offline: &[bool; L2T], last_slots: usize) -> bool {
    let mut ok = true;
    let mut t = 0;
    while t < L2T {
        let w = words[t];
        let (free, reserved, tclass) = (((w & 0x0fff_ffff) as usize), (w >> 28) & 1 == 1, ((w >> 29) & 7) as u8);
        if free > TREE_FRAMES || lf[t] > TREE_FRAMES {
            ok = false;
        }
        let mut holders = 0;
        let mut held = 0;
        let mut c = 0;
        while c < NC {
            if c < NC - 1 || last_slots == 1 {
                let (present, row, sfree) = slot_fields(slots[c]);
                if present && row * 64 / TREE_FRAMES == t {
                    holders += 1;
                    held += sfree;
                    // what Trees::unreserve needs: the slot's class may keep or demote the tree
                    if kpolicy::kind(Class(c as u8), Class(tclass)) > 1 {
                        ok = false;
                    }
                }
            }
            c += 1;
        }
        if holders > 1 || (holders == 1) != reserved {
            ok = false;
        }
        if offline[t] {
            if free != 0 || reserved || lf[t] != TREE_FRAMES {
                ok = false;
            }
        } else if free + held != lf[t] {
            ok = false;
        }
        if (tclass as usize) >= NC {
            ok = false;
        }
        t += 1;
    }
    let mut c = 0;
    while c < NC {
        if c < NC - 1 || last_slots == 1 {
            let (present, row, sfree) = slot_fields(slots[c]);
            if present && (row * 64 >= L2T * TREE_FRAMES || sfree > TREE_FRAMES) {
                ok = false;
            }
            if !slot_wf(slots[c]) {
                ok = false;
            }
        }
        c += 1;
    }
    ok
}

/// The invariant as separately named clauses (so that a violation names the broken part).
fn inv_clauses<const NC: usize>(words: &[u32; L2T], slots: &[u64; NC], lf: &[usize; L2T], offline: &[bool; L2T], last_slots: usize) {
    let mut t = 0;
    while t < L2T {
        let w = words[t];
        let (free, reserved, tclass) = (((w & 0x0fff_ffff) as usize), (w >> 28) & 1 == 1, ((w >> 29) & 7) as u8);
        clause!(free <= TREE_FRAMES && lf[t] <= TREE_FRAMES, "I: counters stay within a tree");
        let mut holders = 0;
        let mut held = 0;
        let mut c = 0;
        while c < NC {
            if c < NC - 1 || last_slots == 1 {
                let (present, row, sfree) = slot_fields(slots[c]);
                if present && row * 64 / TREE_FRAMES == t {
                    holders += 1;
                    held += sfree;
                    clause!(kpolicy::kind(Class(c as u8), Class(tclass)) <= 1, "I/C09: a reserved tree keeps a class its slot may match or demote (else unreserve panics)");
                }
            }
            c += 1;
        }
        clause!(holders <= 1 && (holders == 1) == reserved, "I: a tree is marked reserved exactly when one slot holds it");
        if offline[t] {
            clause!(free == 0 && !reserved && lf[t] == TREE_FRAMES, "I/C15: an offline tree stays empty, unreserved and entirely free below");
        } else {
            clause!(free + held == lf[t], "I/C04: tree counter plus slot counter equals the frames free in the lower allocator");
        }
        clause!((tclass as usize) < NC, "I: tree classes are configured classes");
        t += 1;
    }
    let mut c = 0;
    while c < NC {
        if c < NC - 1 || last_slots == 1 {
            let (present, row, sfree) = slot_fields(slots[c]);
            clause!(!present || (row * 64 < L2T * TREE_FRAMES && sfree <= TREE_FRAMES), "I: slots point into the managed range");
        }
        c += 1;
    }
}

/// Build the allocator over the configuration and run `f` on it.
fn with_alloc<const NC: usize, R>(c: &Cfg<NC>, f: impl FnOnce(&LLFree) -> R) -> (R, [u32; L2T], [u64; NC], [usize; L2T]) {
    let mut buf = SlotBuf([0; SLOT_BYTES * MAXC]);
    let mut classes = [(Class(0), 1usize); NC];
    let gap = unsafe { GAP_CLASS };
    let mut n = 0;
    let mut i = 0;
    while i < NC {
        if i != gap {
            classes[n] = (Class(i as u8), nslots(c, i));
            n += 1;
        }
        i += 1;
    }
    let classing = Classing::new(&classes[..n], c.default, kpolicy::policy);
    let frames = L2T * TREE_FRAMES - unsafe { FRAMES_CUT };
    let locals = Locals::new(&mut buf.0[..], &classing).unwrap();
    let mut i = 0;
    while i < NC {
        if nslots(c, i) == 1 && i != gap {
            set_slot(&locals, Class(i as u8), 0, c.slots[i]);
        }
        i += 1;
    }
    unsafe {
        let mut t = 0;
        while t < L2T {
            ghost::LF[t] = c.lf[t];
            OFFLINE[t] = c.offline[t];
            t += 1;
        }
        ghost::NET_ALLOCS = 0;
    }
    with_trees(&c.words, c.default, |trees| {
        let alloc = LLFree { locals, lower: ghost_lower(frames), trees, policy: kpolicy::policy };
        let r = f(&alloc);
        let mut words = [0u32; L2T];
        let mut lf = [0usize; L2T];
        let mut t = 0;
        while t < L2T {
            let (free, res, class) = tree_word(&alloc.trees, t);
            words[t] = (free as u32) | ((res as u32) << 28) | ((class as u32) << 29);
            lf[t] = unsafe { ghost::LF[t] };
            t += 1;
        }
        let mut slots = [0u64; NC];
        let mut i = 0;
        while i < NC {
            if nslots(c, i) == 1 && i != gap {
                slots[i] = crate::local::verif_contracts::slot_bits(&alloc.locals, Class(i as u8), 0);
            }
            i += 1;
        }
        (r, words, slots, lf)
    })
}

fn any_request<const NC: usize>(c: &Cfg<NC>, order: usize) -> Request {
    let class: u8 = kani::any();
    kani::assume((class as usize) < NC);
    let local = if kani::any() && nslots(c, class as usize) == 1 { Some(0) } else { None };
    Request::new(order, Class(class), local)
}

// ---------------------------------------------------------------------------------------------
// C08: LLFree::check over the full domain of frame and order
// ---------------------------------------------------------------------------------------------
#[kani::proof]
#[kani::unwind(10)]
fn c08_check_full_domain() {
    kpolicy::init(false);
    let c = any_cfg::<2>(false);
    let frame: usize = kani::any();
    let order: usize = kani::any();
    let class: u8 = kani::any();
    kani::assume(class < 8);
    let local: Option<usize> = if kani::any() { Some(kani::any()) } else { None };
    // any managed frame count with two trees, in particular counts that are not a multiple of the block size
    let cut: usize = kani::any();
    kani::assume(cut < TREE_FRAMES);
    unsafe { FRAMES_CUT = cut };
    let frames = L2T * TREE_FRAMES - cut;
    let (r, _, _, _) = with_alloc(&c, |a| a.check(FrameId(frame), &Request::new(order, Class(class), local)));
    unsafe { FRAMES_CUT = 0 };
    vcover!(r.is_ok(), "valid request");
    vcover!(r.is_err(), "invalid request");
    let invalid = order > TREE_ORDER
        || frame > frames
        || (1usize << (order % 64)) > frames - frame.min(frames)
        || frame % (1usize << (order % 64)) != 0
        || class as usize >= 2;
    clause!(r.is_err() == invalid, "C08: a request is rejected exactly when order > tree order, block past the range, misaligned, or class not configured");
    if let Err(e) = r {
        clause!(e == Error::Argument, "C08: invalid requests are rejected with an argument error");
    }
}

// ---------------------------------------------------------------------------------------------
// LLFree::put (C02 allocator level, C04 conservation, C08 no side effects, C09 no panic)
// ---------------------------------------------------------------------------------------------
fn check_put<const NC: usize>(zero_slot_last: bool) {
    kpolicy::init(false);
    let c = any_cfg::<NC>(zero_slot_last);
    kani::assume(inv(&c.words, &c.slots, &c.lf, &c.offline, c.last_slots));
    let order: usize = kani::any();
    kani::assume(order <= TREE_ORDER);
    let n = 1usize << order;
    let frame: usize = kani::any();
    let valid = frame < L2T * TREE_FRAMES && frame % n == 0 && frame + n <= L2T * TREE_FRAMES;
    let t = if valid { frame / TREE_FRAMES } else { 0 };
    let req = any_request(&c, order);
    let put_ok: bool = kani::any();
    // ghost: the block can only be allocated if the tree has room for it and is not offline
    kani::assume(!put_ok || (valid && c.lf[t] + n <= TREE_FRAMES && !c.offline[t]));
    unsafe { ghost::PUT_OK = put_ok };
    let (r, words, slots, lf) = with_alloc(&c, |a| a.put(FrameId(frame), req));
    vcover!(r.is_ok(), "put ok");
    vcover!(r == Err(Error::Memory), "put of a block that is not allocated");
    vcover!(r == Err(Error::Argument), "put with invalid arguments");
    clause!(r.is_ok() == (valid && put_ok), "C02: a free succeeds exactly when the arguments are valid and the lower allocator frees the block");
    if !valid {
        clause!(r == Err(Error::Argument), "C08: invalid free is rejected with an argument error");
    }
    if r.is_err() {
        let mut same = true;
        let mut i = 0;
        while i < L2T {
            if words[i] != c.words[i] || lf[i] != c.lf[i] {
                same = false;
            }
            i += 1;
        }
        let mut i = 0;
        while i < NC {
            if nslots(&c, i) == 1 && slots[i] != c.slots[i] {
                same = false;
            }
            i += 1;
        }
        clause!(same, "C02/C08: a failing free changes no counter");
    }
    inv_clauses(&words, &slots, &lf, &c.offline, c.last_slots);
}
#[kani::proof]
#[kani::unwind(10)]
#[kani::stub(crate::atomic::Atom::try_update, crate::atomic::Atom::try_update_seq)]
#[kani::stub(crate::atomic::Atom::update, crate::atomic::Atom::update_seq)]
#[kani::stub(crate::lower::Lower::put, crate::lower::Lower::put_contract)]
fn l2_put_2classes() {
    check_put::<2>(false);
}
#[kani::proof]
#[kani::unwind(10)]
#[kani::stub(crate::atomic::Atom::try_update, crate::atomic::Atom::try_update_seq)]
#[kani::stub(crate::atomic::Atom::update, crate::atomic::Atom::update_seq)]
#[kani::stub(crate::lower::Lower::put, crate::lower::Lower::put_contract)]
fn l2_put_3classes_zero_slot() {
    check_put::<3>(true);
}

macro_rules! l2_harness {
    ($(#[$m:meta])* $name:ident, $body:expr) => {
        #[kani::proof]
        #[kani::unwind(10)]
        #[kani::stub(crate::atomic::Atom::try_update, crate::atomic::Atom::try_update_seq)]
        #[kani::stub(crate::atomic::Atom::update, crate::atomic::Atom::update_seq)]
        #[kani::stub(crate::lower::Lower::put, crate::lower::Lower::put_contract)]
        #[kani::stub(crate::lower::Lower::get, crate::lower::Lower::get_contract)]
        #[kani::stub(crate::lower::Lower::stats_at, crate::lower::Lower::stats_at_contract)]
        #[kani::stub(crate::lower::Lower::stats, crate::lower::Lower::stats_contract)]
        $(#[$m])*
        fn $name() {
            $body
        }
    };
}

fn sum_lf(lf: &[usize; L2T], offline: &[bool; L2T]) -> usize {
    let mut s = 0;
    let mut t = 0;
    while t < L2T {
        if !offline[t] {
            s += lf[t];
        }
        t += 1;
    }
    s
}

// ---------------------------------------------------------------------------------------------
// LLFree::drain (C10: returns every slot counter to its tree; C09: never panics under I)
// ---------------------------------------------------------------------------------------------
fn check_drain<const NC: usize>(zero_slot_last: bool) {
    kpolicy::init(false);
    let c = any_cfg::<NC>(zero_slot_last);
    kani::assume(inv(&c.words, &c.slots, &c.lf, &c.offline, c.last_slots));
    let (_, words, slots, lf) = with_alloc(&c, |a| a.drain());
    let mut i = 0;
    while i < NC {
        if nslots(&c, i) == 1 {
            clause!(!slot_fields(slots[i]).0, "C10: after a drain no slot holds a tree");
        }
        i += 1;
    }
    let mut t = 0;
    while t < L2T {
        clause!(lf[t] == c.lf[t], "drain does not touch the lower allocator");
        clause!((words[t] >> 28) & 1 == 0, "C10: after a drain no tree is reserved");
        t += 1;
    }
    inv_clauses(&words, &slots, &lf, &c.offline, c.last_slots);
}
l2_harness!(l2_drain_2classes, check_drain::<2>(false));
l2_harness!(l2_drain_3classes_zero_slot, check_drain::<3>(true));

// ---------------------------------------------------------------------------------------------
// LLFree::tree_stats (C14, C04 fast count)
// ---------------------------------------------------------------------------------------------
fn check_tree_stats<const NC: usize>(zero_slot_last: bool, reservations_hold_frames: bool) {
    kpolicy::init(false);
    let c = any_cfg::<NC>(zero_slot_last);
    kani::assume(inv(&c.words, &c.slots, &c.lf, &c.offline, c.last_slots));
    let (s, _, _, _) = with_alloc(&c, |a| a.tree_stats());
    let mut total = 0;
    let mut free = 0;
    let mut k = 0;
    while k < 8 {
        total += s.classes[k].free_frames + s.classes[k].alloc_frames;
        free += s.classes[k].free_frames;
        k += 1;
    }
    clause!(s.free_frames == sum_lf(&c.lf, &c.offline), "C04: the fast free count equals the exact count minus the frames of offline trees");
    clause!(free == s.free_frames, "C14: the per-class free counts sum to the fast total free count");
    // frames sitting in local reservations
    let mut held = 0;
    let mut i = 0;
    while i < NC {
        if nslots(&c, i) == 1 {
            let (present, _, sfree) = slot_fields(c.slots[i]);
            if present {
                held += sfree;
            }
        }
        i += 1;
    }
    kani::assume((held > 0) == reservations_hold_frames);
    if held == 0 {
        clause!(total == L2T * TREE_FRAMES, "C14: free plus allocated over all classes equals trees times tree size (no frames in reservations)");
    } else {
        clause!(total == L2T * TREE_FRAMES, "C14: free plus allocated over all classes equals trees times tree size (frames in reservations)");
    }
}
l2_harness!(l2_tree_stats_2classes, check_tree_stats::<2>(false, false));
l2_harness!(l2_tree_stats_3classes_zero_slot, check_tree_stats::<3>(true, false));
l2_harness!(l2_tree_stats_reserved_2classes, check_tree_stats::<2>(false, true));
l2_harness!(l2_tree_stats_reserved_3classes_zero_slot, check_tree_stats::<3>(true, true));

// ---------------------------------------------------------------------------------------------
// LLFree::validate (C04): passes whenever the invariant holds and no tree is offline
// ---------------------------------------------------------------------------------------------
fn check_validate<const NC: usize>() {
    kpolicy::init(false);
    let c = any_cfg::<NC>(false);
    kani::assume(inv(&c.words, &c.slots, &c.lf, &c.offline, c.last_slots));
    let mut t = 0;
    while t < L2T {
        kani::assume(!c.offline[t]);
        t += 1;
    }
    let (_, words, _, _) = with_alloc(&c, |a| a.validate());
    clause!(words[0] == c.words[0], "validate is read-only");
}
l2_harness!(l2_validate_2classes, check_validate::<2>());

// ---------------------------------------------------------------------------------------------
// LLFree::change_tree (C15)
// ---------------------------------------------------------------------------------------------
fn check_change_tree<const NC: usize>() {
    kpolicy::init(false);
    let c = any_cfg::<NC>(false);
    kani::assume(inv(&c.words, &c.slots, &c.lf, &c.offline, c.last_slots));
    let id: Option<TreeId> = if kani::any() { Some(TreeId(kani::any())) } else { None };
    let m_class: Option<Class> = if kani::any() {
        let k: u8 = kani::any();
        kani::assume((k as usize) < NC);
        Some(Class(k))
    } else {
        None
    };
    let m_free: usize = kani::any();
    let c_class: Option<Class> = if kani::any() {
        let k: u8 = kani::any();
        kani::assume((k as usize) < NC);
        Some(Class(k))
    } else {
        None
    };
    let opk: u8 = kani::any();
    kani::assume(opk < 3);
    let op = match opk {
        0 => None,
        1 => Some(TreeOperation::Online),
        _ => Some(TreeOperation::Offline),
    };
    // valid parameter: a tree id, if given, names an existing tree ("naming any tree")
    kani::assume(id.is_none_or(|i| i.0 < L2T));
    // offlining is defined for entirely free trees (the caller matches on free == TREE_FRAMES)
    kani::assume(op != Some(TreeOperation::Offline) || m_free == TREE_FRAMES);
    let (r, words, slots, lf) = with_alloc(&c, |a| a.change_tree(TreeMatch { id, class: m_class, free: m_free }, TreeChange { class: c_class, operation: op.clone() }));
    vcover!(r.is_ok() && op == Some(TreeOperation::Offline), "offline applied");
    vcover!(r.is_ok() && op == Some(TreeOperation::Online), "online applied");
    vcover!(r.is_err(), "change refused");
    // which tree changed?
    let mut changed = 0;
    let mut which = 0;
    let mut t = 0;
    while t < L2T {
        if words[t] != c.words[t] {
            changed += 1;
            which = t;
        }
        t += 1;
    }
    clause!(changed <= 1, "C15: a tree change affects at most one tree");
    let matches = |t: usize| {
        let w = c.words[t];
        (w >> 28) & 1 == 0 && m_class.is_none_or(|k| k.0 as u32 == (w >> 29) & 7) && (w & 0x0fff_ffff) as usize >= m_free
    };
    if r.is_err() {
        clause!(changed == 0, "C15: a refused change leaves every tree unchanged");
        if let Some(i) = id {
            clause!(!matches(i.0) || (op == Some(TreeOperation::Online) && c.words[i.0] & 0x0fff_ffff != 0), "C15: a matching unreserved tree named by id is changed");
        }
    }
    // ghost offline set follows the operation
    let mut offline = c.offline;
    if r.is_ok() {
        let t = if changed == 1 { which } else if let Some(i) = id { i.0 } else { 0 };
        if changed == 1 {
            clause!(matches(which), "C15: changes never apply to reserved trees or to trees that do not match");
            clause!(id.is_none_or(|i| i.0 == which), "C15: a change by id applies to that tree");
        }
        match op {
            Some(TreeOperation::Offline) => {
                clause!(changed == 0 || words[which] & 0x0fff_ffff == 0, "C15: offline empties the fast counter");
                if changed == 1 {
                    offline[which] = true;
                }
            }
            Some(TreeOperation::Online) => {
                if changed == 1 {
                    clause!((words[which] & 0x0fff_ffff) as usize == c.lf[which], "C15: online restores exact accounting from the lower allocator");
                    clause!(c_class.is_none_or(|k| k.0 as u32 == (words[which] >> 29) & 7), "C15: online gives the tree the requested class");
                    offline[which] = false;
                }
            }
            None => {}
        }
        let _ = t;
    }
    // Online of a tree that is not offline (counter 0 because everything is allocated) keeps I as well
    inv_clauses(&words, &slots, &lf, &offline, c.last_slots);
}
l2_harness!(l2_change_tree_2classes, check_change_tree::<2>());

// ---------------------------------------------------------------------------------------------
// Allocation paths. `LLFree::get` is verified modularly: every inner helper (steal_global,
// reserve_or_steal, get_local, steal_local, demote_local, search_and_reserve, get_at) is checked
// against the SAME generic contract G, and is replaced by G (as a verified stub) where its callers
// are checked.
//   G  pre : invariant I, valid arguments
//      post: invariant I;
//            Ok((f, c)) => exactly one lower-level allocation happened, it is the block at f
//                          (aligned, in range, in a tree that is not offline, the requested frame
//                          if one was given), its frames left LF[tree(f)], every other LF is
//                          unchanged, and c is the requested class or one the policy rates as
//                          match or stealable for it (C13);
//            Err(e)     => e == Memory, no lower-level allocation remains, every LF unchanged.
// ---------------------------------------------------------------------------------------------
use crate::trees::verif_contracts::set_tree_word;

fn word_fields(w: u32) -> (usize, bool, u8) {
    ((w & 0x0fff_ffff) as usize, (w >> 28) & 1 == 1, ((w >> 29) & 7) as u8)
}
fn cur_word(a: &LLFree, t: usize) -> u32 {
    let (free, res, class) = tree_word(&a.trees, t);
    (free as u32) | ((res as u32) << 28) | ((class as u32) << 29)
}
fn has_slot(a: &LLFree, c: usize) -> bool {
    a.locals.class_locals(Class(c as u8)) == Some(1)
}
/// Invariant I evaluated on the live allocator (same predicate as `inv`).
fn inv_rt(a: &LLFree) -> bool {
    let mut ok = true;
    let mut t = 0;
    while t < L2T {
        let (free, reserved, tclass) = word_fields(cur_word(a, t));
        let lf = unsafe { ghost::LF[t] };
        if free > TREE_FRAMES || lf > TREE_FRAMES {
            ok = false;
        }
        let mut holders = 0;
        let mut held = 0;
        let mut c = 0;
        while c < MAXC {
            if has_slot(a, c) {
                let (present, tree, sfree, _) = slot_word(&a.locals, Class(c as u8), 0);
                if present && tree == t {
                    holders += 1;
                    held += sfree;
                    if kpolicy::kind(Class(c as u8), Class(tclass)) > 1 {
                        ok = false;
                    }
                }
            }
            c += 1;
        }
        if holders > 1 || (holders == 1) != reserved {
            ok = false;
        }
        if unsafe { OFFLINE[t] } {
            if free != 0 || reserved || lf != TREE_FRAMES {
                ok = false;
            }
        } else if free + held != lf {
            ok = false;
        }
        if a.locals.class_locals(Class(tclass)).is_none() {
            ok = false;
        }
        t += 1;
    }
    let mut c = 0;
    while c < MAXC {
        if has_slot(a, c) {
            let (present, _, sfree, row) = slot_word(&a.locals, Class(c as u8), 0);
            if present && (row * 64 >= L2T * TREE_FRAMES || sfree > TREE_FRAMES) {
                ok = false;
            }
        }
        c += 1;
    }
    ok
}
fn lf_now() -> [usize; L2T] {
    let mut r = [0; L2T];
    let mut t = 0;
    while t < L2T {
        r[t] = unsafe { ghost::LF[t] };
        t += 1;
    }
    r
}
/// Postcondition G as a predicate (assumed by the stub, asserted clause by clause by `g_check`).
fn g_holds(a: &LLFree, lf0: &[usize; L2T], allocs0: usize, class: Class, order: usize, frame: Option<FrameId>, r: &Result<(FrameId, Class)>) -> bool {
    let n = 1usize << order;
    let lf = lf_now();
    let allocs = unsafe { ghost::NET_ALLOCS };
    let mut ok = inv_rt(a);
    let mut u = 0;
    while u < L2T {
        if lf[u] > TREE_FRAMES {
            return false;
        }
        u += 1;
    }
    match r {
        Ok((f, c)) => {
            if f.0 >= L2T * TREE_FRAMES || f.0 % n != 0 || f.0 + n > L2T * TREE_FRAMES {
                return false;
            }
            let t = f.0 / TREE_FRAMES;
            if allocs != allocs0 + 1 || unsafe { ghost::LAST_FRAME } != f.0 || unsafe { OFFLINE[t] } {
                ok = false;
            }
            if frame.is_some_and(|x| x.0 != f.0) {
                ok = false;
            }
            let mut u = 0;
            while u < L2T {
                if lf[u] + (if u == t { n } else { 0 }) != lf0[u] {
                    ok = false;
                }
                u += 1;
            }
            if !(c.0 == class.0 || kpolicy::kind(class, *c) == 0 || kpolicy::kind(class, *c) == 2) {
                ok = false;
            }
            if a.locals.class_locals(*c).is_none() {
                ok = false;
            }
        }
        Err(e) => {
            if *e != Error::Memory || allocs != allocs0 {
                ok = false;
            }
            let mut u = 0;
            while u < L2T {
                if lf[u] != lf0[u] {
                    ok = false;
                }
                u += 1;
            }
        }
    }
    ok
}
fn g_check(a: &LLFree, lf0: &[usize; L2T], class: Class, order: usize, frame: Option<FrameId>, r: &Result<(FrameId, Class)>) {
    let n = 1usize << order;
    let lf = lf_now();
    let allocs = unsafe { ghost::NET_ALLOCS };
    clause!(inv_rt(a), "C04/C09: the allocation path preserves the allocator invariant I (counter conservation, reservations, unreserve precondition)");
    match r {
        Ok((f, c)) => {
            clause!(f.0 % n == 0 && f.0 < L2T * TREE_FRAMES && f.0 + n <= L2T * TREE_FRAMES, "C01: block aligned and inside the managed range");
            let t = (f.0 / TREE_FRAMES).min(L2T - 1);
            clause!(allocs == 1 && unsafe { ghost::LAST_FRAME } == f.0, "C02: a successful allocation returns exactly the block of its one lower-level allocation");
            clause!(!unsafe { OFFLINE[t] }, "C15: no allocation returns a frame of an offline tree");
            clause!(frame.is_none_or(|x| x.0 == f.0), "C02: a targeted allocation returns exactly the requested frame");
            let mut u = 0;
            while u < L2T {
                clause!(lf[u] + (if u == t { n } else { 0 }) == lf0[u], "C02: exactly the block's frames leave the lower allocator");
                u += 1;
            }
            clause!(c.0 == class.0 || kpolicy::kind(class, *c) == 0 || kpolicy::kind(class, *c) == 2,
                "C13: the reported class is the requested one or one the policy rates as match or stealable");
            clause!(a.locals.class_locals(*c).is_some(), "C13: the reported class is a configured class");
        }
        Err(e) => {
            clause!(*e == Error::Memory, "a valid request fails only with out-of-memory");
            clause!(allocs == 0, "C02: a failing allocation leaves no frame allocated");
            let mut u = 0;
            while u < L2T {
                clause!(lf[u] == lf0[u], "C02: a failing allocation changes no lower-level counter");
                u += 1;
            }
        }
    }
}

impl LLFree<'_> {
    /// G as a verified stub: assert the precondition, havoc everything the frame allows (tree words,
    /// slot words, ghost lower counters), assume the postcondition.
    fn g_stub(&self, class: Class, order: usize, frame: Option<FrameId>) -> Result<(FrameId, Class)> {
        kani::assert(inv_rt(self), "precondition of an allocation helper: invariant I");
        kani::assert(order <= TREE_ORDER && self.locals.class_locals(class).is_some(), "precondition of an allocation helper: valid order and class");
        let lf0 = lf_now();
        let allocs0 = unsafe { ghost::NET_ALLOCS };
        let mut t = 0;
        while t < L2T {
            set_tree_word(&self.trees, t, kani::any());
            unsafe { ghost::LF[t] = kani::any() };
            t += 1;
        }
        let mut c = 0;
        while c < MAXC {
            if has_slot(self, c) {
                let bits: u64 = kani::any();
                kani::assume(slot_wf(bits));
                set_slot(&self.locals, Class(c as u8), 0, bits);
            }
            c += 1;
        }
        let r: Result<(FrameId, Class)> = if kani::any() {
            let f: usize = kani::any();
            let k: u8 = kani::any();
            kani::assume(k < 8);
            unsafe {
                ghost::NET_ALLOCS = allocs0 + 1;
                ghost::LAST_FRAME = f;
                ghost::LAST_ORDER = order;
            }
            Ok((FrameId(f), Class(k)))
        } else {
            Err(Error::Memory)
        };
        kani::assume(g_holds(self, &lf0, allocs0, class, order, frame, &r));
        r
    }
    fn steal_global_g(&self, i: TreeId, class: Class, order: usize, frame: Option<FrameId>) -> Result<(FrameId, Class)> {
        kani::assert(i.0 < L2T, "steal_global precondition: tree id in range");
        self.g_stub(class, order, frame)
    }
    fn reserve_or_steal_g(&self, i: TreeId, order: usize, class: Class, _local: usize) -> Result<(FrameId, Class)> {
        kani::assert(i.0 < L2T, "reserve_or_steal precondition: tree id in range");
        self.g_stub(class, order, None)
    }
    fn get_local_g(&self, order: usize, class: Class, local: usize, frame: Option<FrameId>, _sync: bool) -> core::result::Result<(FrameId, Class), (Error, Option<TreeId>)> {
        kani::assert(self.locals.class_locals(class).is_some_and(|n| local < n), "get_local precondition: slot index below the class's slot count");
        match self.g_stub(class, order, frame) {
            Ok(r) => Ok(r),
            Err(e) => {
                let t: Option<TreeId> = if kani::any() {
                    let t: usize = kani::any();
                    kani::assume(t < L2T);
                    Some(TreeId(t))
                } else {
                    None
                };
                Err((e, t))
            }
        }
    }
    fn search_and_reserve_g(&self, order: usize, class: Class, local: usize, start: TreeId) -> Result<(FrameId, Class)> {
        kani::assert(self.locals.class_locals(class).is_some_and(|n| local < n) && start.0 < L2T, "search_and_reserve precondition");
        self.g_stub(class, order, None)
    }
    fn steal_local_g(&self, request: &Request, frame: Option<FrameId>) -> Result<(FrameId, Class)> {
        self.g_stub(request.class, request.order, frame)
    }
    fn demote_local_g(&self, request: &Request, frame: Option<FrameId>) -> Result<(FrameId, Class)> {
        self.g_stub(request.class, request.order, frame)
    }
    fn get_at_g(&self, frame: FrameId, request: Request) -> Result<(FrameId, Class)> {
        self.g_stub(request.class, request.order, Some(frame))
    }
}

/// Common set-up of a helper obligation: a symbolic configuration under I and a symbolic, valid
/// (class, order, optional target) triple. Returns (cfg, class, order, frame, local).
fn helper_setup<const NC: usize>(zero_slot_last: bool, targeted: bool) -> (Cfg<NC>, Class, usize, Option<FrameId>, Option<usize>) {
    kpolicy::init(false);
    let c = any_cfg::<NC>(zero_slot_last);
    kani::assume(inv(&c.words, &c.slots, &c.lf, &c.offline, c.last_slots));
    let order: usize = kani::any();
    kani::assume(order <= TREE_ORDER);
    let n = 1usize << order;
    let class: u8 = kani::any();
    kani::assume((class as usize) < NC);
    let local = if nslots(&c, class as usize) == 1 && kani::any() { Some(0) } else { None };
    let frame = if targeted {
        let f: usize = kani::any();
        kani::assume(f < L2T * TREE_FRAMES && f % n == 0 && f + n <= L2T * TREE_FRAMES);
        let free: bool = kani::any();
        kani::assume(!free || c.lf[f / TREE_FRAMES] >= n);
        unsafe {
            ghost::TGT_FRAME = f;
            ghost::TGT_ORDER = order;
            ghost::TGT_FREE = free;
        }
        Some(FrameId(f))
    } else {
        None
    };
    (c, Class(class), order, frame, local)
}

fn check_steal_global<const NC: usize>(zs: bool, targeted: bool) {
    let (c, class, order, frame, _) = helper_setup::<NC>(zs, targeted);
    let i: usize = kani::any();
    kani::assume(i < L2T && frame.is_none_or(|f| f.0 / TREE_FRAMES == i));
    with_alloc(&c, |a| {
        let r = a.steal_global(TreeId(i), class, order, frame);
        vcover!(r.is_ok(), "steal_global ok");
        g_check(a, &c.lf, class, order, frame, &r);
    });
}
fn check_reserve_or_steal<const NC: usize>(zs: bool) {
    let (c, class, order, _, local) = helper_setup::<NC>(zs, false);
    kani::assume(local.is_some());
    let i: usize = kani::any();
    kani::assume(i < L2T);
    with_alloc(&c, |a| {
        let r = a.reserve_or_steal(TreeId(i), order, class, local.unwrap());
        vcover!(r.is_ok(), "reserve_or_steal ok");
        g_check(a, &c.lf, class, order, None, &r);
    });
}
fn check_get_local<const NC: usize>(zs: bool, targeted: bool) {
    let (c, class, order, frame, local) = helper_setup::<NC>(zs, targeted);
    kani::assume(local.is_some());
    let sync: bool = kani::any();
    with_alloc(&c, |a| {
        let r = a.get_local(order, class, local.unwrap(), frame, sync);
        vcover!(r.is_ok(), "get_local ok");
        let r2 = match r {
            Ok(x) => Ok(x),
            Err((e, t)) => {
                clause!(t.is_none_or(|t| t.0 < L2T), "get_local reports a tree id inside the tree array");
                Err(e)
            }
        };
        g_check(a, &c.lf, class, order, frame, &r2);
    });
}
fn check_steal_local<const NC: usize>(zs: bool, targeted: bool) {
    let (c, class, order, frame, local) = helper_setup::<NC>(zs, targeted);
    with_alloc(&c, |a| {
        let r = a.steal_local(&Request::new(order, class, local), frame);
        vcover!(r.is_ok(), "steal_local ok");
        g_check(a, &c.lf, class, order, frame, &r);
    });
}
fn check_demote_local<const NC: usize>(zs: bool, targeted: bool) {
    let (c, class, order, frame, local) = helper_setup::<NC>(zs, targeted);
    with_alloc(&c, |a| {
        let r = a.demote_local(&Request::new(order, class, local), frame);
        vcover!(r.is_ok(), "demote_local ok");
        g_check(a, &c.lf, class, order, frame, &r);
    });
}
fn check_search_and_reserve<const NC: usize>(zs: bool) {
    let (c, class, order, _, local) = helper_setup::<NC>(zs, false);
    kani::assume(local.is_some());
    let start: usize = kani::any();
    kani::assume(start < L2T);
    with_alloc(&c, |a| {
        let r = a.search_and_reserve(order, class, local.unwrap(), TreeId(start));
        g_check(a, &c.lf, class, order, None, &r);
    });
}
fn check_get_at<const NC: usize>(zs: bool) {
    let (c, class, order, frame, local) = helper_setup::<NC>(zs, true);
    with_alloc(&c, |a| {
        let r = a.get_at(frame.unwrap(), Request::new(order, class, local));
        g_check(a, &c.lf, class, order, frame, &r);
    });
}
fn check_get<const NC: usize>(zs: bool, targeted: bool) {
    let (c, class, order, frame, local) = helper_setup::<NC>(zs, targeted);
    with_alloc(&c, |a| {
        let r = a.get(frame, Request::new(order, class, local));
        g_check(a, &c.lf, class, order, frame, &r);
    });
}

macro_rules! path_harness {
    ($name:ident, [$($stub:meta),*], $body:expr) => {
        #[kani::proof]
        #[kani::unwind(10)]
        #[kani::solver(kissat)]
        #[kani::stub(crate::atomic::Atom::try_update, crate::atomic::Atom::try_update_seq)]
        #[kani::stub(crate::atomic::Atom::update, crate::atomic::Atom::update_seq)]
        $(#[$stub])*
        fn $name() {
            $body
        }
    };
}
path_harness!(l2_steal_global_2c, [kani::stub(crate::lower::Lower::get, crate::lower::Lower::get_contract)], check_steal_global::<2>(false, false));
path_harness!(l2_steal_global_at_2c, [kani::stub(crate::lower::Lower::get, crate::lower::Lower::get_contract)], check_steal_global::<2>(false, true));
path_harness!(l2_steal_global_3c_zero_slot, [kani::stub(crate::lower::Lower::get, crate::lower::Lower::get_contract)], check_steal_global::<3>(true, false));
path_harness!(l2_reserve_or_steal_2c, [kani::stub(crate::lower::Lower::get, crate::lower::Lower::get_contract)], check_reserve_or_steal::<2>(false));
path_harness!(l2_reserve_or_steal_3c_zero_slot, [kani::stub(crate::lower::Lower::get, crate::lower::Lower::get_contract)], check_reserve_or_steal::<3>(true));
path_harness!(l2_get_local_2c, [kani::stub(crate::lower::Lower::get, crate::lower::Lower::get_contract)], check_get_local::<2>(false, false));
path_harness!(l2_get_local_at_2c, [kani::stub(crate::lower::Lower::get, crate::lower::Lower::get_contract)], check_get_local::<2>(false, true));
path_harness!(l2_steal_local_2c, [kani::stub(crate::lower::Lower::get, crate::lower::Lower::get_contract)], check_steal_local::<2>(false, false));
path_harness!(l2_steal_local_at_3c_zero_slot, [kani::stub(crate::lower::Lower::get, crate::lower::Lower::get_contract)], check_steal_local::<3>(true, true));
path_harness!(l2_demote_local_2c, [kani::stub(crate::lower::Lower::get, crate::lower::Lower::get_contract)], check_demote_local::<2>(false, false));
path_harness!(l2_demote_local_at_3c_zero_slot, [kani::stub(crate::lower::Lower::get, crate::lower::Lower::get_contract)], check_demote_local::<3>(true, true));
path_harness!(l2_search_and_reserve_2c, [kani::stub(crate::trees::Trees::search_best, crate::trees::Trees::search_best_contract), kani::stub(crate::llfree::LLFree::reserve_or_steal, crate::llfree::LLFree::reserve_or_steal_g)], check_search_and_reserve::<2>(false));
path_harness!(l2_search_and_reserve_3c_zero_slot, [kani::stub(crate::trees::Trees::search_best, crate::trees::Trees::search_best_contract), kani::stub(crate::llfree::LLFree::reserve_or_steal, crate::llfree::LLFree::reserve_or_steal_g)], check_search_and_reserve::<3>(true));
path_harness!(l2_get_at_2c, [kani::stub(crate::llfree::LLFree::get_local, crate::llfree::LLFree::get_local_g), kani::stub(crate::llfree::LLFree::steal_global, crate::llfree::LLFree::steal_global_g),
    kani::stub(crate::llfree::LLFree::steal_local, crate::llfree::LLFree::steal_local_g), kani::stub(crate::llfree::LLFree::demote_local, crate::llfree::LLFree::demote_local_g)], check_get_at::<2>(false));
path_harness!(l2_get_2c, [kani::stub(crate::trees::Trees::search_best, crate::trees::Trees::search_best_contract), kani::stub(crate::llfree::LLFree::get_local, crate::llfree::LLFree::get_local_g), kani::stub(crate::llfree::LLFree::steal_global, crate::llfree::LLFree::steal_global_g),
    kani::stub(crate::llfree::LLFree::steal_local, crate::llfree::LLFree::steal_local_g), kani::stub(crate::llfree::LLFree::demote_local, crate::llfree::LLFree::demote_local_g),
    kani::stub(crate::llfree::LLFree::search_and_reserve, crate::llfree::LLFree::search_and_reserve_g), kani::stub(crate::llfree::LLFree::get_at, crate::llfree::LLFree::get_at_g)], check_get::<2>(false, false));
path_harness!(l2_get_targeted_2c, [kani::stub(crate::llfree::LLFree::get_at, crate::llfree::LLFree::get_at_g)], check_get::<2>(false, true));
path_harness!(l2_get_3c_zero_slot, [kani::stub(crate::trees::Trees::search_best, crate::trees::Trees::search_best_contract), kani::stub(crate::llfree::LLFree::get_local, crate::llfree::LLFree::get_local_g), kani::stub(crate::llfree::LLFree::steal_global, crate::llfree::LLFree::steal_global_g),
    kani::stub(crate::llfree::LLFree::steal_local, crate::llfree::LLFree::steal_local_g), kani::stub(crate::llfree::LLFree::demote_local, crate::llfree::LLFree::demote_local_g),
    kani::stub(crate::llfree::LLFree::search_and_reserve, crate::llfree::LLFree::search_and_reserve_g), kani::stub(crate::llfree::LLFree::get_at, crate::llfree::LLFree::get_at_g)], check_get::<3>(true, false));

// ---------------------------------------------------------------------------------------------
// LLFree::new: metadata validation (C08), assume-initialized mode (C07), carved slices (C18)
// The three buffers are carved out of ONE aligned array so that the pointer comparisons of
// `MetaData::valid` stay inside one object for CBMC.
// ---------------------------------------------------------------------------------------------
const NEW_FRAMES: usize = TREE_FRAMES + 5; // two trees, partial last tree
#[repr(align(64))]
struct MetaBuf([u8; 2048]);

fn simple_policy(requested: Class, target: Class, _free: usize) -> Policy {
    if requested.0 > target.0 {
        Policy::Steal
    } else if requested.0 < target.0 {
        Policy::Demote
    } else {
        Policy::Match(1)
    }
}

/// C08: construction succeeds exactly when every buffer is large enough, cache aligned and disjoint
/// from the others; otherwise it returns an initialization error.
#[kani::proof]
#[kani::unwind(10)]
fn c08_new_rejects_bad_metadata() {
    let classing = Classing::new(&[(Class(0), 1), (Class(1), 1)], Class(1), simple_policy);
    let m = LLFree::metadata_size(&classing, NEW_FRAMES);
    let mut buf = MetaBuf([0; 2048]);
    let base = buf.0.as_mut_ptr();
    let (o1, o2, o3): (usize, usize, usize) = (kani::any(), kani::any(), kani::any());
    let (l1, l2, l3): (usize, usize, usize) = (kani::any(), kani::any(), kani::any());
    kani::assume(l1 >= 1 && l2 >= 1 && l3 >= 1);
    kani::assume(o1 <= 2048 && l1 <= 2048 - o1 && o2 <= 2048 && l2 <= 2048 - o2 && o3 <= 2048 && l3 <= 2048 - o3);
    let meta = unsafe {
        MetaData {
            local: core::slice::from_raw_parts_mut(base.add(o1), l1),
            trees: core::slice::from_raw_parts_mut(base.add(o2), l2),
            lower: core::slice::from_raw_parts_mut(base.add(o3), l3),
        }
    };
    let r = LLFree::new(NEW_FRAMES, Init::None, &classing, meta);
    let short = l1 < m.local || l2 < m.trees || l3 < m.lower;
    let misaligned = o1 % 64 != 0 || o2 % 64 != 0 || o3 % 64 != 0;
    let inter = |a: usize, la: usize, b: usize, lb: usize| a < b + lb && b < a + la;
    let overlapping = inter(o1, l1, o2, l2) || inter(o2, l2, o3, l3) || inter(o3, l3, o1, l1);
    vcover!(r.is_ok(), "valid metadata accepted");
    vcover!(r.is_err() && !short && !misaligned, "overlap rejected");
    clause!(r.is_err() == (short || misaligned || overlapping), "C08: construction fails exactly for metadata that is too small, misaligned or overlapping");
    if let Err(e) = r {
        clause!(e == Error::Initialization, "C08: bad metadata is rejected with an initialization error");
    }
}

/// C07: assume-initialized construction writes nothing and yields the same allocator shape as any
/// other initialisation mode (so an allocator rebuilt over byte copies has the same concrete state).
#[kani::proof]
#[kani::unwind(10)]
fn c07_init_none_keeps_buffers() {
    let classing = Classing::new(&[(Class(0), 1), (Class(1), 1)], Class(1), simple_policy);
    let m = LLFree::metadata_size(&classing, NEW_FRAMES);
    let mut buf = MetaBuf(kani::any());
    let before = buf.0;
    let base = buf.0.as_mut_ptr();
    let o2 = m.local.next_multiple_of(64);
    let o3 = o2 + m.trees.next_multiple_of(64);
    kani::assume(o3 + m.lower <= 2048);
    let meta = unsafe {
        MetaData {
            local: core::slice::from_raw_parts_mut(base, m.local),
            trees: core::slice::from_raw_parts_mut(base.add(o2), m.trees),
            lower: core::slice::from_raw_parts_mut(base.add(o3), m.lower),
        }
    };
    let mut a = LLFree::new(NEW_FRAMES, Init::None, &classing, meta).unwrap();
    clause!(a.frames() == NEW_FRAMES && a.trees.len() == NEW_FRAMES.div_ceil(TREE_FRAMES), "C07: frame and tree counts as configured");
    clause!(a.locals.class_locals(Class(0)) == Some(1) && a.locals.class_locals(Class(1)) == Some(1) && a.locals.class_locals(Class(2)).is_none(), "C07: slot layout as configured");
    let md = unsafe { a.metadata() };
    clause!(md.local.as_ptr() as usize == base as usize && md.local.len() == m.local, "C07: metadata() returns the local buffer that was passed in");
    clause!(md.trees.as_ptr() as usize == base as usize + o2 && md.trees.len() == m.trees, "C07: metadata() returns the tree buffer that was passed in");
    clause!(md.lower.as_ptr() as usize == base as usize + o3 && md.lower.len() == m.lower, "C07: metadata() returns the lower buffer that was passed in");
    let k: usize = kani::any();
    kani::assume(k < 2048);
    clause!(buf.0[k] == before[k], "C07: assume-initialized construction writes no metadata byte");
}

// ---------------------------------------------------------------------------------------------
// C10 / C11: completeness of the allocation search, monolithic over the configuration
// (all inner helpers with their real bodies; only the lower allocator, the atomics' retry loops and
// std's slice rotation are by contract).
// ---------------------------------------------------------------------------------------------
fn check_c10<const NC: usize>(targeted: bool) {
    kpolicy::init(true);
    let mut c = any_cfg::<NC>(false);
    let mut i = 0;
    while i < NC {
        c.slots[i] = 0; // drained: no slot holds a tree
        i += 1;
    }
    kani::assume(inv(&c.words, &c.slots, &c.lf, &c.offline, c.last_slots));
    let class: u8 = kani::any();
    kani::assume((class as usize) < NC);
    let local = if kani::any() { Some(0) } else { None };
    if targeted {
        let order: usize = kani::any();
        kani::assume(order <= TREE_ORDER);
        let n = 1usize << order;
        let frame: usize = kani::any();
        kani::assume(frame < L2T * TREE_FRAMES && frame % n == 0 && frame + n <= L2T * TREE_FRAMES);
        let t = frame / TREE_FRAMES;
        let tgt_free: bool = kani::any();
        kani::assume(!tgt_free || c.lf[t] >= n);
        unsafe {
            ghost::TGT_FRAME = frame;
            ghost::TGT_ORDER = order;
            ghost::TGT_FREE = tgt_free;
        }
        let (r, _, _, _) = with_alloc(&c, |a| a.get(Some(FrameId(frame)), Request::new(order, Class(class), local)));
        clause!(r.is_ok() == (tgt_free && !c.offline[t]), "C10: after a drain a targeted allocation succeeds iff the whole block is free and outside offline trees");
    } else {
        let (r, _, _, _) = with_alloc(&c, |a| a.get(None, Request::new(0, Class(class), local)));
        if r.is_err() {
            clause!(sum_lf(&c.lf, &c.offline) == 0, "C10: after a drain a base-order allocation fails only if no frame outside offline trees is free");
        }
    }
}
fn check_c11() {
    kpolicy::init(false);
    let mut c = any_cfg::<1>(false);
    c.offline = [false; L2T];
    kani::assume(inv(&c.words, &c.slots, &c.lf, &c.offline, c.last_slots));
    let (r, _, _, _) = with_alloc(&c, |a| a.get(None, Request::new(0, Class(0), Some(0))));
    if r.is_err() {
        clause!(sum_lf(&c.lf, &c.offline) == 0, "C11: a single-slot allocator reports out-of-memory only if no frame is free");
    }
}
macro_rules! mono_harness {
    ($name:ident, $body:expr) => {
        #[kani::proof]
        #[kani::unwind(10)]
        #[kani::solver(kissat)]
        #[kani::stub(crate::atomic::Atom::try_update, crate::atomic::Atom::try_update_seq)]
        #[kani::stub(crate::atomic::Atom::update, crate::atomic::Atom::update_seq)]
        #[kani::stub(crate::lower::Lower::get, crate::lower::Lower::get_contract)]
        #[kani::stub(<[core::option::Option<crate::util::OrdBy<(Policy, bool), TreeId>>]>::rotate_right, crate::util::verif_contracts::rotate_right_model)]
        #[kani::stub(<[core::option::Option<crate::util::OrdBy<(Policy, bool), TreeId>>]>::rotate_left, crate::util::verif_contracts::rotate_left_model)]
        fn $name() {
            $body
        }
    };
}
mono_harness!(c10_drained_base_order_2c, check_c10::<2>(false));
mono_harness!(c10_drained_targeted_2c, check_c10::<2>(true));
mono_harness!(c11_single_slot_base_order, check_c11());

/// Construction (FreeAll / AllocAll / Recover) establishes invariant I with no reservation: every tree
/// counter equals the frames free in the lower allocator (fast == exact), default class, unreserved,
/// no slot holds a tree.
fn check_new_establishes(frames: usize) {
    let classing = Classing::new(&[(Class(0), 1), (Class(1), 1)], Class(1), simple_policy);
    let m = LLFree::metadata_size(&classing, frames);
    let mut buf = MetaBuf([0; 2048]); // volatile buffers are handed over zeroed (MetaData::alloc)
    let base = buf.0.as_mut_ptr();
    let o2 = m.local.next_multiple_of(64);
    let o3 = o2 + m.trees.next_multiple_of(64);
    let lf: [usize; L2T] = kani::any();
    kani::assume(lf[0] <= TREE_FRAMES && lf[1] <= frames - TREE_FRAMES);
    unsafe {
        ghost::LF[0] = lf[0];
        ghost::LF[1] = lf[1];
    }
    let k: u8 = kani::any();
    kani::assume(k < 3);
    let init = match k {
        0 => Init::FreeAll,
        1 => Init::AllocAll,
        _ => Init::Recover,
    };
    let meta = unsafe {
        MetaData {
            local: core::slice::from_raw_parts_mut(base, m.local),
            trees: core::slice::from_raw_parts_mut(base.add(o2), m.trees),
            lower: core::slice::from_raw_parts_mut(base.add(o3), m.lower),
        }
    };
    let a = LLFree::new(frames, init, &classing, meta).unwrap();
    let mut t = 0;
    while t < L2T {
        let (free, reserved, class) = tree_word(&a.trees, t);
        clause!(free == lf[t] && !reserved && class == 1, "C05/C06: every tree counter equals the frames free in the lower allocator (fast == exact), default class, unreserved");
        t += 1;
    }
    clause!(!slot_word(&a.locals, Class(0), 0).0 && !slot_word(&a.locals, Class(1), 0).0, "C05/C06: a fresh allocator holds no reservation");
    clause!(a.tree_stats().free_frames == a.stats().free_frames, "C05: the fresh / recovered allocator's fast and exact counts agree");
}
#[kani::proof]
#[kani::unwind(10)]
#[kani::stub(crate::lower::Lower::new, crate::lower::Lower::new_contract)]
#[kani::stub(crate::lower::Lower::stats_at, crate::lower::Lower::stats_at_contract)]
#[kani::stub(crate::lower::Lower::stats, crate::lower::Lower::stats_contract)]
fn l2_new_establishes_invariant() {
    check_new_establishes(2 * TREE_FRAMES);
}
#[kani::proof]
#[kani::unwind(10)]
#[kani::stub(crate::lower::Lower::new, crate::lower::Lower::new_contract)]
#[kani::stub(crate::lower::Lower::stats_at, crate::lower::Lower::stats_at_contract)]
#[kani::stub(crate::lower::Lower::stats, crate::lower::Lower::stats_contract)]
fn l2_new_establishes_invariant_partial() {
    check_new_establishes(TREE_FRAMES + 5);
}

// ---------------------------------------------------------------------------------------------
// C10 / C11: completeness of base-order allocation, verified modularly.
// Contract C0 (order 0, no target) strengthens G for the failing case:
//   Err(Memory) => the allocator state is EXACTLY what it was at the call (tree words, slot words, LF)
//                  and the helper's own "nothing usable here" condition held:
//     steal_global / reserve_or_steal (tree i) : reserved(i) or counter(i) == 0 or policy Invalid
//     get_local (slot)                          : slot empty, or slot counter == 0 and the held tree's
//                                                 global counter == 0 (the sync threshold of C11)
//     search_and_reserve                        : every tree is reserved, empty, or rated Invalid
// ---------------------------------------------------------------------------------------------
#[derive(Clone, Copy, PartialEq, Eq)]
struct Full {
    words: [u32; L2T],
    slots: [u64; MAXC],
    lf: [usize; L2T],
}
fn full_state(a: &LLFree) -> Full {
    let mut words = [0u32; L2T];
    let mut t = 0;
    while t < L2T {
        words[t] = cur_word(a, t);
        t += 1;
    }
    let mut slots = [0u64; MAXC];
    let mut c = 0;
    while c < MAXC {
        if has_slot(a, c) {
            slots[c] = crate::local::verif_contracts::slot_bits(&a.locals, Class(c as u8), 0);
        }
        c += 1;
    }
    Full { words, slots, lf: lf_now() }
}
fn same_state(a: &Full, b: &Full) -> bool {
    let mut ok = true;
    let mut t = 0;
    while t < L2T {
        if a.words[t] != b.words[t] || a.lf[t] != b.lf[t] {
            ok = false;
        }
        t += 1;
    }
    let mut c = 0;
    while c < MAXC {
        if a.slots[c] != b.slots[c] {
            ok = false;
        }
        c += 1;
    }
    ok
}
fn tree_unusable(s: &Full, class: Class, t: usize) -> bool {
    let (free, reserved, tclass) = word_fields(s.words[t]);
    reserved || free == 0 || kpolicy::kind(class, Class(tclass)) == 3
}
fn all_trees_unusable(s: &Full, class: Class) -> bool {
    let mut ok = true;
    let mut t = 0;
    while t < L2T {
        if !tree_unusable(s, class, t) {
            ok = false;
        }
        t += 1;
    }
    ok
}
fn slot_exhausted(s: &Full, class: Class) -> bool {
    let (present, row, sfree) = slot_fields(s.slots[class.0 as usize]);
    if !present {
        true
    } else {
        let t = row * 64 / TREE_FRAMES;
        sfree == 0 && t < L2T && word_fields(s.words[t]).0 == 0
    }
}

impl LLFree<'_> {
    /// C0 as a stub: G for the successful case; a failure changes nothing and implies `cond`.
    fn c0_stub(&self, class: Class, cond: impl Fn(&Full) -> bool) -> Result<(FrameId, Class)> {
        let before = full_state(self);
        let r = self.g_stub(class, 0, None);
        if r.is_err() {
            // undo the havoc of g_stub: a failing base-order helper leaves the state as it found it
            let mut t = 0;
            while t < L2T {
                set_tree_word(&self.trees, t, before.words[t]);
                unsafe { ghost::LF[t] = before.lf[t] };
                t += 1;
            }
            let mut c = 0;
            while c < MAXC {
                if has_slot(self, c) {
                    set_slot(&self.locals, Class(c as u8), 0, before.slots[c]);
                }
                c += 1;
            }
            kani::assume(cond(&before));
        }
        r
    }
    fn steal_global_c0(&self, i: TreeId, class: Class, order: usize, frame: Option<FrameId>) -> Result<(FrameId, Class)> {
        kani::assert(i.0 < L2T && order == 0 && frame.is_none(), "C0 stub: base order, no target");
        self.c0_stub(class, |s| tree_unusable(s, class, i.0))
    }
    fn reserve_or_steal_c0(&self, i: TreeId, order: usize, class: Class, _local: usize) -> Result<(FrameId, Class)> {
        kani::assert(i.0 < L2T && order == 0, "C0 stub: base order");
        self.c0_stub(class, |s| tree_unusable(s, class, i.0))
    }
    fn get_local_c0(&self, order: usize, class: Class, local: usize, frame: Option<FrameId>, _sync: bool) -> core::result::Result<(FrameId, Class), (Error, Option<TreeId>)> {
        kani::assert(order == 0 && frame.is_none() && self.locals.class_locals(class).is_some_and(|n| local < n), "C0 stub: base order, no target, valid slot");
        match self.c0_stub(class, |s| slot_exhausted(s, class)) {
            Ok(r) => Ok(r),
            Err(e) => {
                let t: Option<TreeId> = if kani::any() {
                    let t: usize = kani::any();
                    kani::assume(t < L2T);
                    Some(TreeId(t))
                } else {
                    None
                };
                Err((e, t))
            }
        }
    }
    fn search_and_reserve_c0(&self, order: usize, class: Class, _local: usize, start: TreeId) -> Result<(FrameId, Class)> {
        kani::assert(order == 0 && start.0 < L2T, "C0 stub: base order");
        self.c0_stub(class, |s| all_trees_unusable(s, class))
    }
}

/// Check C0 for a helper: G (through g_check) plus, on failure, unchanged state and the condition.
fn c0_check(a: &LLFree, before: &Full, lf0: &[usize; L2T], class: Class, r: &Result<(FrameId, Class)>, cond: bool) {
    g_check(a, lf0, class, 0, None, r);
    if r.is_err() {
        clause!(same_state(before, &full_state(a)), "C10/C11: a failing base-order helper leaves tree words, slot words and lower counters exactly as they were");
        clause!(cond, "C10/C11: a base-order helper fails only if nothing usable was there (reserved / empty / Invalid; slot and its tree exhausted)");
    }
}
fn c0_setup<const NC: usize>() -> (Cfg<NC>, Class, Option<usize>) {
    let (c, class, order, _, local) = helper_setup::<NC>(false, false);
    kani::assume(order == 0);
    (c, class, local)
}
fn check_c0_steal_global<const NC: usize>() {
    let (c, class, _) = c0_setup::<NC>();
    let i: usize = kani::any();
    kani::assume(i < L2T);
    with_alloc(&c, |a| {
        let before = full_state(a);
        let r = a.steal_global(TreeId(i), class, 0, None);
        c0_check(a, &before, &c.lf, class, &r, tree_unusable(&before, class, i));
    });
}
fn check_c0_reserve_or_steal<const NC: usize>() {
    let (c, class, local) = c0_setup::<NC>();
    kani::assume(local.is_some());
    let i: usize = kani::any();
    kani::assume(i < L2T);
    with_alloc(&c, |a| {
        let before = full_state(a);
        let r = a.reserve_or_steal(TreeId(i), 0, class, 0);
        c0_check(a, &before, &c.lf, class, &r, tree_unusable(&before, class, i));
    });
}
fn check_c0_get_local<const NC: usize>() {
    let (c, class, local) = c0_setup::<NC>();
    kani::assume(local.is_some());
    with_alloc(&c, |a| {
        let before = full_state(a);
        let r = a.get_local(0, class, 0, None, true);
        let r2 = match r {
            Ok(x) => Ok(x),
            Err((e, _)) => Err(e),
        };
        c0_check(a, &before, &c.lf, class, &r2, slot_exhausted(&before, class));
    });
}
fn check_c0_search_and_reserve<const NC: usize>() {
    let (c, class, local) = c0_setup::<NC>();
    kani::assume(local.is_some());
    let start: usize = kani::any();
    kani::assume(start < L2T);
    with_alloc(&c, |a| {
        let before = full_state(a);
        let r = a.search_and_reserve(0, class, 0, TreeId(start));
        c0_check(a, &before, &c.lf, class, &r, all_trees_unusable(&before, class));
    });
}
/// C10 (drained, never-Invalid policy) and C11 (one class, one slot) from the helper contracts.
fn check_c10_modular<const NC: usize>() {
    kpolicy::init(true);
    let mut c = any_cfg::<NC>(false);
    let mut i = 0;
    while i < NC {
        c.slots[i] = 0; // drained: no slot holds a tree
        i += 1;
    }
    kani::assume(inv(&c.words, &c.slots, &c.lf, &c.offline, c.last_slots));
    let class: u8 = kani::any();
    kani::assume((class as usize) < NC);
    let local = if kani::any() { Some(0) } else { None };
    let (r, _, _, _) = with_alloc(&c, |a| a.get(None, Request::new(0, Class(class), local)));
    vcover!(r.is_err(), "out of memory after a drain");
    if r.is_err() {
        clause!(sum_lf(&c.lf, &c.offline) == 0, "C10: after a drain a base-order allocation fails only if no frame outside offline trees is free");
    }
}
fn check_c11_modular() {
    kpolicy::init(false);
    let mut c = any_cfg::<1>(false);
    c.offline = [false; L2T];
    kani::assume(inv(&c.words, &c.slots, &c.lf, &c.offline, c.last_slots));
    let (r, _, _, _) = with_alloc(&c, |a| a.get(None, Request::new(0, Class(0), Some(0))));
    vcover!(r.is_err(), "out of memory");
    if r.is_err() {
        clause!(sum_lf(&c.lf, &c.offline) == 0, "C11: a single-slot allocator reports out-of-memory only if no frame is free");
    }
}
const SBC: &str = "";
path_harness!(c0_steal_global_2c, [kani::stub(crate::lower::Lower::get, crate::lower::Lower::get_contract)], check_c0_steal_global::<2>());
path_harness!(c0_reserve_or_steal_2c, [kani::stub(crate::lower::Lower::get, crate::lower::Lower::get_contract)], check_c0_reserve_or_steal::<2>());
path_harness!(c0_get_local_2c, [kani::stub(crate::lower::Lower::get, crate::lower::Lower::get_contract)], check_c0_get_local::<2>());
path_harness!(c0_get_local_1c, [kani::stub(crate::lower::Lower::get, crate::lower::Lower::get_contract)], check_c0_get_local::<1>());
path_harness!(c0_search_and_reserve_2c, [kani::stub(crate::trees::Trees::search_best, crate::trees::Trees::search_best_complete), kani::stub(crate::llfree::LLFree::reserve_or_steal, crate::llfree::LLFree::reserve_or_steal_c0)], check_c0_search_and_reserve::<2>());
path_harness!(c0_search_and_reserve_1c, [kani::stub(crate::trees::Trees::search_best, crate::trees::Trees::search_best_complete), kani::stub(crate::llfree::LLFree::reserve_or_steal, crate::llfree::LLFree::reserve_or_steal_c0)], check_c0_search_and_reserve::<1>());
path_harness!(c10_drained_base_order_modular_2c, [kani::stub(crate::trees::Trees::search_best, crate::trees::Trees::search_best_complete), kani::stub(crate::llfree::LLFree::get_local, crate::llfree::LLFree::get_local_c0),
    kani::stub(crate::llfree::LLFree::search_and_reserve, crate::llfree::LLFree::search_and_reserve_c0), kani::stub(crate::llfree::LLFree::steal_global, crate::llfree::LLFree::steal_global_c0),
    kani::stub(crate::llfree::LLFree::steal_local, crate::llfree::LLFree::steal_local_g), kani::stub(crate::llfree::LLFree::demote_local, crate::llfree::LLFree::demote_local_g)], check_c10_modular::<2>());
path_harness!(c11_single_slot_modular, [kani::stub(crate::trees::Trees::search_best, crate::trees::Trees::search_best_complete), kani::stub(crate::llfree::LLFree::get_local, crate::llfree::LLFree::get_local_c0),
    kani::stub(crate::llfree::LLFree::search_and_reserve, crate::llfree::LLFree::search_and_reserve_c0), kani::stub(crate::llfree::LLFree::steal_global, crate::llfree::LLFree::steal_global_c0),
    kani::stub(crate::llfree::LLFree::steal_local, crate::llfree::LLFree::steal_local_g), kani::stub(crate::llfree::LLFree::demote_local, crate::llfree::LLFree::demote_local_g)], check_c11_modular());


/// tree_stats with NON-CONTIGUOUS class ids (classes 0 and 2 configured, 1 not): same clauses.
fn check_tree_stats_gap() {
    kpolicy::init(false);
    unsafe { GAP_CLASS = 1 };
    let mut c = any_cfg::<3>(false);
    c.slots[1] = 0; // the unconfigured class has no slot
    kani::assume(c.default.0 != 1);
    kani::assume(inv(&c.words, &c.slots, &c.lf, &c.offline, c.last_slots));
    let mut t = 0;
    while t < L2T {
        kani::assume((c.words[t] >> 29) & 7 != 1); // no tree carries the unconfigured class
        t += 1;
    }
    let (s, _, _, _) = with_alloc(&c, |a| a.tree_stats());
    let mut free = 0;
    let mut k = 0;
    while k < 8 {
        free += s.classes[k].free_frames;
        k += 1;
    }
    clause!(s.free_frames == sum_lf(&c.lf, &c.offline), "C04: the fast free count equals the exact count minus the frames of offline trees");
    clause!(free == s.free_frames, "C14: the per-class free counts sum to the fast total free count");
    unsafe { GAP_CLASS = usize::MAX };
}
l2_harness!(l2_tree_stats_gap_classes, check_tree_stats_gap());
