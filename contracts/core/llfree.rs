//! Contracts for `core/src/llfree.rs` (allocator level, L2). The lower allocator is used through
//! the contracts of its public functions over the ghost view in `lower::verif_contracts::ghost`.
use super::*;
use crate::local::verif_contracts::{set_slot, slot_fields, slot_word, slot_wf, SLOT_BYTES};
use crate::lower::verif_contracts::{ghost, ghost_lower};
use crate::trees::verif_contracts::{tree_word, with_trees};
use crate::verif_contracts::{clause, kpolicy, vcover};

pub(crate) const L2T: usize = 2; // trees in the L2 configuration
const MAXC: usize = 3;

#[repr(align(64))]
struct SlotBuf([u8; SLOT_BYTES * MAXC]);

/// Ghost set of offline trees.
static mut OFFLINE: [bool; L2T] = [false; L2T];

/// Symbolic upper state: tree words, slot words (one slot per class, classes 0..NC), ghost lower.
struct Cfg<const NC: usize> {
    words: [u32; L2T],
    slots: [u64; NC],
    lf: [usize; L2T],
    offline: [bool; L2T],
    default: Class,
    /// number of slots of the last class (0 = a class without local slots)
    last_slots: usize,
}

fn any_cfg<const NC: usize>(zero_slot_last: bool) -> Cfg<NC> {
    let d: u8 = kani::any();
    kani::assume((d as usize) < NC);
    Cfg { words: kani::any(), slots: kani::any(), lf: kani::any(), offline: kani::any(), default: Class(d), last_slots: if zero_slot_last { 0 } else { 1 } }
}
fn nslots<const NC: usize>(c: &Cfg<NC>, class: usize) -> usize {
    if class == NC - 1 { c.last_slots } else { 1 }
}

/// Upper invariant I (DESIGN.md 3.1) over words, slots and the ghost lower view.
fn inv<const NC: usize>(words: &[u32; L2T], slots: &[u64; NC], lf: &[usize; L2T], offline: &[bool; L2T], last_slots: usize) -> bool {
    let mut ok = true;
    let mut t = 0;
    while t < L2T {
        let w = words[t];
        let (free, reserved, tclass) = (((w & 0x0fff_ffff) as usize), (w >> 28) & 1 == 1, ((w >> 29) & 7) as u8);
        if free > TREE_FRAMES || lf[t] > TREE_FRAMES {
            ok = false;
        }
        let mut holders = 0;
        let mut held = 0;
        let mut c = 0;
        while c < NC {
            if c < NC - 1 || last_slots == 1 {
                let (present, row, sfree) = slot_fields(slots[c]);
                if present && row * 64 / TREE_FRAMES == t {
                    holders += 1;
                    held += sfree;
                    // what Trees::unreserve needs: the slot's class may keep or demote the tree
                    if kpolicy::kind(Class(c as u8), Class(tclass)) > 1 {
                        ok = false;
                    }
                }
            }
            c += 1;
        }
        if holders > 1 || (holders == 1) != reserved {
            ok = false;
        }
        if offline[t] {
            if free != 0 || reserved || lf[t] != TREE_FRAMES {
                ok = false;
            }
        } else if free + held != lf[t] {
            ok = false;
        }
        if (tclass as usize) >= NC {
            ok = false;
        }
        t += 1;
    }
    let mut c = 0;
    while c < NC {
        if c < NC - 1 || last_slots == 1 {
            let (present, row, sfree) = slot_fields(slots[c]);
            if present && (row * 64 >= L2T * TREE_FRAMES || sfree > TREE_FRAMES) {
                ok = false;
            }
            if !slot_wf(slots[c]) {
                ok = false;
            }
        }
        c += 1;
    }
    ok
}

/// The invariant as separately named clauses (so that a violation names the broken part).
fn inv_clauses<const NC: usize>(words: &[u32; L2T], slots: &[u64; NC], lf: &[usize; L2T], offline: &[bool; L2T], last_slots: usize) {
    let mut t = 0;
    while t < L2T {
        let w = words[t];
        let (free, reserved, tclass) = (((w & 0x0fff_ffff) as usize), (w >> 28) & 1 == 1, ((w >> 29) & 7) as u8);
        clause!(free <= TREE_FRAMES && lf[t] <= TREE_FRAMES, "I: counters stay within a tree");
        let mut holders = 0;
        let mut held = 0;
        let mut c = 0;
        while c < NC {
            if c < NC - 1 || last_slots == 1 {
                let (present, row, sfree) = slot_fields(slots[c]);
                if present && row * 64 / TREE_FRAMES == t {
                    holders += 1;
                    held += sfree;
                    clause!(kpolicy::kind(Class(c as u8), Class(tclass)) <= 1, "I/C09: a reserved tree keeps a class its slot may match or demote (else unreserve panics)");
                }
            }
            c += 1;
        }
        clause!(holders <= 1 && (holders == 1) == reserved, "I: a tree is marked reserved exactly when one slot holds it");
        if offline[t] {
            clause!(free == 0 && !reserved && lf[t] == TREE_FRAMES, "I/C15: an offline tree stays empty, unreserved and entirely free below");
        } else {
            clause!(free + held == lf[t], "I/C04: tree counter plus slot counter equals the frames free in the lower allocator");
        }
        clause!((tclass as usize) < NC, "I: tree classes are configured classes");
        t += 1;
    }
    let mut c = 0;
    while c < NC {
        if c < NC - 1 || last_slots == 1 {
            let (present, row, sfree) = slot_fields(slots[c]);
            clause!(!present || (row * 64 < L2T * TREE_FRAMES && sfree <= TREE_FRAMES), "I: slots point into the managed range");
        }
        c += 1;
    }
}

/// Build the allocator over the configuration and run `f` on it.
fn with_alloc<const NC: usize, R>(c: &Cfg<NC>, f: impl FnOnce(&LLFree) -> R) -> (R, [u32; L2T], [u64; NC], [usize; L2T]) {
    let mut buf = SlotBuf([0; SLOT_BYTES * MAXC]);
    let mut classes = [(Class(0), 1usize); NC];
    let mut i = 0;
    while i < NC {
        classes[i] = (Class(i as u8), nslots(c, i));
        i += 1;
    }
    let classing = Classing::new(&classes, c.default, kpolicy::policy);
    let frames = L2T * TREE_FRAMES;
    let locals = Locals::new(&mut buf.0[..], &classing).unwrap();
    let mut i = 0;
    while i < NC {
        if nslots(c, i) == 1 {
            set_slot(&locals, Class(i as u8), 0, c.slots[i]);
        }
        i += 1;
    }
    unsafe {
        let mut t = 0;
        while t < L2T {
            ghost::LF[t] = c.lf[t];
            OFFLINE[t] = c.offline[t];
            t += 1;
        }
        ghost::NET_ALLOCS = 0;
    }
    with_trees(&c.words, c.default, |trees| {
        let alloc = LLFree { locals, lower: ghost_lower(frames), trees, policy: kpolicy::policy };
        let r = f(&alloc);
        let mut words = [0u32; L2T];
        let mut lf = [0usize; L2T];
        let mut t = 0;
        while t < L2T {
            let (free, res, class) = tree_word(&alloc.trees, t);
            words[t] = (free as u32) | ((res as u32) << 28) | ((class as u32) << 29);
            lf[t] = unsafe { ghost::LF[t] };
            t += 1;
        }
        let mut slots = [0u64; NC];
        let mut i = 0;
        while i < NC {
            if nslots(c, i) == 1 {
                slots[i] = crate::local::verif_contracts::slot_bits(&alloc.locals, Class(i as u8), 0);
            }
            i += 1;
        }
        (r, words, slots, lf)
    })
}

fn any_request<const NC: usize>(c: &Cfg<NC>, order: usize) -> Request {
    let class: u8 = kani::any();
    kani::assume((class as usize) < NC);
    let local = if kani::any() && nslots(c, class as usize) == 1 { Some(0) } else { None };
    Request::new(order, Class(class), local)
}

// ---------------------------------------------------------------------------------------------
// C08: LLFree::check over the full domain of frame and order
// ---------------------------------------------------------------------------------------------
#[kani::proof]
#[kani::unwind(10)]
fn c08_check_full_domain() {
    kpolicy::init(false);
    let c = any_cfg::<2>(false);
    let frame: usize = kani::any();
    let order: usize = kani::any();
    let class: u8 = kani::any();
    kani::assume(class < 8);
    let local: Option<usize> = if kani::any() { Some(kani::any()) } else { None };
    let frames = L2T * TREE_FRAMES;
    let (r, _, _, _) = with_alloc(&c, |a| a.check(FrameId(frame), &Request::new(order, Class(class), local)));
    vcover!(r.is_ok(), "valid request");
    vcover!(r.is_err(), "invalid request");
    let invalid = order > TREE_ORDER
        || frame > frames
        || (1usize << (order % 64)) > frames - frame.min(frames)
        || frame % (1usize << (order % 64)) != 0
        || class as usize >= 2;
    clause!(r.is_err() == invalid, "C08: a request is rejected exactly when order > tree order, block past the range, misaligned, or class not configured");
    if let Err(e) = r {
        clause!(e == Error::Argument, "C08: invalid requests are rejected with an argument error");
    }
}

// ---------------------------------------------------------------------------------------------
// LLFree::put (C02 allocator level, C04 conservation, C08 no side effects, C09 no panic)
// ---------------------------------------------------------------------------------------------
fn check_put<const NC: usize>(zero_slot_last: bool) {
    kpolicy::init(false);
    let c = any_cfg::<NC>(zero_slot_last);
    kani::assume(inv(&c.words, &c.slots, &c.lf, &c.offline, c.last_slots));
    let order: usize = kani::any();
    kani::assume(order <= TREE_ORDER);
    let n = 1usize << order;
    let frame: usize = kani::any();
    let valid = frame < L2T * TREE_FRAMES && frame % n == 0 && frame + n <= L2T * TREE_FRAMES;
    let t = if valid { frame / TREE_FRAMES } else { 0 };
    let req = any_request(&c, order);
    let put_ok: bool = kani::any();
    // ghost: the block can only be allocated if the tree has room for it and is not offline
    kani::assume(!put_ok || (valid && c.lf[t] + n <= TREE_FRAMES && !c.offline[t]));
    unsafe { ghost::PUT_OK = put_ok };
    let (r, words, slots, lf) = with_alloc(&c, |a| a.put(FrameId(frame), req));
    vcover!(r.is_ok(), "put ok");
    vcover!(r == Err(Error::Memory), "put of a block that is not allocated");
    vcover!(r == Err(Error::Argument), "put with invalid arguments");
    clause!(r.is_ok() == (valid && put_ok), "C02: a free succeeds exactly when the arguments are valid and the lower allocator frees the block");
    if !valid {
        clause!(r == Err(Error::Argument), "C08: invalid free is rejected with an argument error");
    }
    if r.is_err() {
        let mut same = true;
        let mut i = 0;
        while i < L2T {
            if words[i] != c.words[i] || lf[i] != c.lf[i] {
                same = false;
            }
            i += 1;
        }
        let mut i = 0;
        while i < NC {
            if nslots(&c, i) == 1 && slots[i] != c.slots[i] {
                same = false;
            }
            i += 1;
        }
        clause!(same, "C02/C08: a failing free changes no counter");
    }
    inv_clauses(&words, &slots, &lf, &c.offline, c.last_slots);
}
#[kani::proof]
#[kani::unwind(10)]
#[kani::stub(crate::atomic::Atom::try_update, crate::atomic::Atom::try_update_seq)]
#[kani::stub(crate::atomic::Atom::update, crate::atomic::Atom::update_seq)]
#[kani::stub(crate::lower::Lower::put, crate::lower::Lower::put_contract)]
fn l2_put_2classes() {
    check_put::<2>(false);
}
#[kani::proof]
#[kani::unwind(10)]
#[kani::stub(crate::atomic::Atom::try_update, crate::atomic::Atom::try_update_seq)]
#[kani::stub(crate::atomic::Atom::update, crate::atomic::Atom::update_seq)]
#[kani::stub(crate::lower::Lower::put, crate::lower::Lower::put_contract)]
fn l2_put_3classes_zero_slot() {
    check_put::<3>(true);
}
