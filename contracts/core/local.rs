//! Contracts for `core/src/local.rs` (child module: sees `LocalTree`, `Local`, `Locals { buffer, classes }`).
use super::*;
use crate::verif_contracts::{any_class, clause, gpolicy, vcover};
use crate::{TREE_FRAMES, TreeId};

// ---------------------------------------------------------------------------------------------
// L0: the slot word. `LocalTree` is a u64 bitfield: row:44 | free:19 | present:1.
// ---------------------------------------------------------------------------------------------
pub(crate) fn local_wf(t: LocalTree) -> bool {
    !t.present() || t.free() <= TREE_FRAMES
}
pub(crate) fn any_local_tree() -> LocalTree {
    let t = LocalTree::from_bits(kani::any());
    kani::assume(local_wf(t));
    t
}
fn any_opt_tree() -> Option<TreeId> {
    if kani::any() { Some(TreeId(kani::any())) } else { None }
}

#[kani::proof]
fn l0_local_with_none() {
    let row: u64 = kani::any();
    kani::assume(row < (1 << 44));
    let free: usize = kani::any();
    kani::assume(free <= TREE_FRAMES);
    let t = LocalTree::with(RowId(row as usize), free);
    clause!(t.present() && t.row().0 == row as usize && t.free() == free, "LocalTree::with stores its fields");
    clause!(!LocalTree::none().present(), "LocalTree::none is not present");
}

/// `LocalTree::get`: decrement iff present, (tree matches or no tree given) and enough frames.
#[kani::proof]
fn l0_local_get() {
    let t = any_local_tree();
    let tree = any_opt_tree();
    let n: usize = kani::any();
    let r = t.get(tree, n);
    vcover!(r.is_some(), "get ok");
    vcover!(r.is_none(), "get fails");
    let should = t.present() && tree.is_none_or(|i| t.row().as_tree() == i) && t.free() >= n;
    clause!(r.is_some() == should, "LocalTree::get succeeds iff present, tree matches and counter >= n");
    if let Some(t2) = r {
        clause!(t2.free() == t.free() - n && t2.present() && t2.row() == t.row(), "LocalTree::get decrements by exactly n, keeps row");
    }
}

/// `LocalTree::put`: precondition from the code's assert (no overflow of the per-tree counter).
#[kani::proof]
fn l0_local_put() {
    let t = any_local_tree();
    let tree = TreeId(kani::any());
    let n: usize = kani::any();
    kani::assume(n <= TREE_FRAMES);
    let matches = t.present() && t.row().as_tree() == tree;
    kani::assume(!matches || t.free() + n <= TREE_FRAMES);
    let r = t.put(tree, n);
    vcover!(r.is_some(), "put ok");
    clause!(r.is_some() == matches, "LocalTree::put succeeds iff the slot holds that tree");
    if let Some(t2) = r {
        clause!(t2.free() == t.free() + n && t2.present() && t2.row() == t.row(), "LocalTree::put adds exactly n, keeps row");
    }
}

#[kani::proof]
fn l0_local_set_start() {
    let t = any_local_tree();
    let row: u64 = kani::any();
    kani::assume(row < (1 << 44));
    let row = RowId(row as usize);
    let r = t.set_start(row);
    if let Some(t2) = r {
        clause!(t.present() && t.row().as_tree() == row.as_tree(), "set_start only within the held tree");
        clause!(t2.row() == row && t2.free() == t.free() && t2.present(), "set_start changes only the row hint");
    }
}

// ---------------------------------------------------------------------------------------------
// Helpers for the allocator-level obligations (private fields of `Locals` / `Local`).
// ---------------------------------------------------------------------------------------------
pub(crate) const SLOT_BYTES: usize = core::mem::size_of::<Local>();

/// Overwrite slot `idx` of `class` with a raw word.
pub(crate) fn set_slot(l: &Locals, class: Class, idx: usize, bits: u64) {
    l.classes[class.0 as usize].as_ref().unwrap().as_slice(l.buffer)[idx].tree.store(LocalTree::from_bits(bits));
}
/// (present, tree id, free, row) of a slot.
pub(crate) fn slot_word(l: &Locals, class: Class, idx: usize) -> (bool, usize, usize, usize) {
    let w = l.classes[class.0 as usize].as_ref().unwrap().as_slice(l.buffer)[idx].tree.load();
    (w.present(), w.row().as_tree().0, w.free(), w.row().0)
}
pub(crate) fn slot_bits(l: &Locals, class: Class, idx: usize) -> u64 {
    l.classes[class.0 as usize].as_ref().unwrap().as_slice(l.buffer)[idx].tree.load().into_bits()
}
pub(crate) fn slot_wf(bits: u64) -> bool {
    local_wf(LocalTree::from_bits(bits))
}
pub(crate) fn slot_fields(bits: u64) -> (bool, usize, usize) {
    let w = LocalTree::from_bits(bits);
    (w.present(), w.row().0, w.free())
}
