//! Contracts for `core/src/local.rs` (child module: sees `LocalTree`, `Local`, `Locals { buffer, classes }`).
use super::*;
use crate::verif_contracts::{any_class, clause, gpolicy, vcover};
use crate::{TREE_FRAMES, TreeId};

// ---------------------------------------------------------------------------------------------
// L0: the slot word. `LocalTree` is a u64 bitfield: row:44 | free:19 | present:1.
// ---------------------------------------------------------------------------------------------
pub(crate) fn local_wf(t: LocalTree) -> bool {
    !t.present() || t.free() <= TREE_FRAMES
}
pub(crate) fn any_local_tree() -> LocalTree {
    let t = LocalTree::from_bits(kani::any());
    kani::assume(local_wf(t));
    t
}
fn any_opt_tree() -> Option<TreeId> {
    if kani::any() { Some(TreeId(kani::any())) } else { None }
}

#[kani::proof]
fn l0_local_with_none() {
    let row: u64 = kani::any();
    kani::assume(row < (1 << 44));
    let free: usize = kani::any();
    kani::assume(free <= TREE_FRAMES);
    let t = LocalTree::with(RowId(row as usize), free);
    clause!(t.present() && t.row().0 == row as usize && t.free() == free, "LocalTree::with stores its fields");
    clause!(!LocalTree::none().present(), "LocalTree::none is not present");
}

/// `LocalTree::get`: decrement iff present, (tree matches or no tree given) and enough frames.
#[kani::proof]
fn l0_local_get() {
    let t = any_local_tree();
    let tree = any_opt_tree();
    let n: usize = kani::any();
    let r = t.get(tree, n);
    vcover!(r.is_some(), "get ok");
    vcover!(r.is_none(), "get fails");
    let should = t.present() && tree.is_none_or(|i| t.row().as_tree() == i) && t.free() >= n;
    clause!(r.is_some() == should, "LocalTree::get succeeds iff present, tree matches and counter >= n");
    if let Some(t2) = r {
        clause!(t2.free() == t.free() - n && t2.present() && t2.row() == t.row(), "LocalTree::get decrements by exactly n, keeps row");
    }
}

/// `LocalTree::put`: precondition from the code's assert (no overflow of the per-tree counter).
#[kani::proof]
fn l0_local_put() {
    let t = any_local_tree();
    let tree = TreeId(kani::any());
    let n: usize = kani::any();
    kani::assume(n <= TREE_FRAMES);
    let matches = t.present() && t.row().as_tree() == tree;
    kani::assume(!matches || t.free() + n <= TREE_FRAMES);
    let r = t.put(tree, n);
    vcover!(r.is_some(), "put ok");
    clause!(r.is_some() == matches, "LocalTree::put succeeds iff the slot holds that tree");
    if let Some(t2) = r {
        clause!(t2.free() == t.free() + n && t2.present() && t2.row() == t.row(), "LocalTree::put adds exactly n, keeps row");
    }
}

#[kani::proof]
fn l0_local_set_start() {
    let t = any_local_tree();
    let row: u64 = kani::any();
    kani::assume(row < (1 << 44));
    let row = RowId(row as usize);
    let r = t.set_start(row);
    if let Some(t2) = r {
        clause!(t.present() && t.row().as_tree() == row.as_tree(), "set_start only within the held tree");
        clause!(t2.row() == row && t2.free() == t.free() && t2.present(), "set_start changes only the row hint");
    }
}

// ---------------------------------------------------------------------------------------------
// Helpers for the allocator-level obligations (private fields of `Locals` / `Local`).
// ---------------------------------------------------------------------------------------------
pub(crate) const SLOT_BYTES: usize = core::mem::size_of::<Local>();

/// Overwrite slot `idx` of `class` with a raw word.
pub(crate) fn set_slot(l: &Locals, class: Class, idx: usize, bits: u64) {
    l.classes[class.0 as usize].as_ref().unwrap().as_slice(l.buffer)[idx].tree.store(LocalTree::from_bits(bits));
}
/// (present, tree id, free, row) of a slot.
pub(crate) fn slot_word(l: &Locals, class: Class, idx: usize) -> (bool, usize, usize, usize) {
    let w = l.classes[class.0 as usize].as_ref().unwrap().as_slice(l.buffer)[idx].tree.load();
    (w.present(), w.row().as_tree().0, w.free(), w.row().0)
}
pub(crate) fn slot_bits(l: &Locals, class: Class, idx: usize) -> u64 {
    l.classes[class.0 as usize].as_ref().unwrap().as_slice(l.buffer)[idx].tree.load().into_bits()
}
pub(crate) fn slot_wf(bits: u64) -> bool {
    local_wf(LocalTree::from_bits(bits))
}
pub(crate) fn slot_fields(bits: u64) -> (bool, usize, usize) {
    let w = LocalTree::from_bits(bits);
    (w.present(), w.row().0, w.free())
}

// ---------------------------------------------------------------------------------------------
// L1b: Locals — slot-level contracts over symbolic slot words, with classes that have 0, 1 or 2 slots
// (C09: no panic for any class configuration incl. classes without slots; C13: class of a stolen
// reservation; C18: slot indices stay inside the class's slice).
// ---------------------------------------------------------------------------------------------
#[repr(align(64))]
struct LBuf([u8; SLOT_BYTES * 4]);

fn kind_policy(requested: Class, target: Class, _free: usize) -> Policy {
    crate::verif_contracts::kpolicy::policy(requested, target, _free)
}
/// classes 0,1,2 with (n0, n1, n2) slots, n in 0..=2, at most 4 slots in total
fn with_locals<R>(n: [usize; 3], f: impl FnOnce(&Locals, [usize; 3]) -> R) -> R {
    let classing = Classing::new(&[(Class(0), n[0]), (Class(1), n[1]), (Class(2), n[2])], Class(0), kind_policy);
    let mut buf = LBuf([0; SLOT_BYTES * 4]);
    let locals = Locals::new(&mut buf.0[..], &classing).unwrap();
    let mut c = 0;
    while c < 3 {
        let mut i = 0;
        while i < n[c] {
            let bits: u64 = kani::any();
            kani::assume(slot_wf(bits));
            set_slot(&locals, Class(c as u8), i, bits);
            i += 1;
        }
        c += 1;
    }
    f(&locals, n)
}
fn any_opt_tree_small() -> Option<TreeId> {
    if kani::any() {
        let t: usize = kani::any();
        kani::assume(t < 4);
        Some(TreeId(t))
    } else {
        None
    }
}

#[kani::proof]
#[kani::unwind(10)]
#[kani::solver(kissat)]
#[kani::stub(crate::atomic::Atom::try_update, crate::atomic::Atom::try_update_seq)]
fn l1b_locals_steal_any() {
    check_steal_any([1, 1, 0]);
}
#[kani::proof]
#[kani::unwind(10)]
#[kani::solver(kissat)]
#[kani::stub(crate::atomic::Atom::try_update, crate::atomic::Atom::try_update_seq)]
fn l1b_locals_steal_any_3_1_0() {
    check_steal_any([3, 1, 0]);
}
fn check_steal_any(cfg: [usize; 3]) {
    crate::verif_contracts::kpolicy::init(false);
    with_locals(cfg, |l, n| {
        let class: u8 = kani::any();
        kani::assume(class < 3);
        let index: Option<usize> = if kani::any() { Some(kani::any()) } else { None };
        // valid parameter: a slot index below the requesting class's slot count, or none
        kani::assume(index.is_none_or(|i| i < n[class as usize]));
        let free: usize = kani::any();
        kani::assume(free >= 1 && free <= TREE_FRAMES);
        let tree = any_opt_tree_small();
        let r = l.steal_any(Class(class), index, tree, free, kind_policy);
        vcover!(r.is_some(), "a reservation is stolen from");
        if let Some(res) = r {
            let k = crate::verif_contracts::kpolicy::kind(Class(class), res.class);
            clause!(k == 0 || k == 2, "C13: steal_any only takes frames from classes the policy rates as match or stealable");
            clause!((res.class.0 as usize) < 3 && n[res.class.0 as usize] > 0, "steal_any reports a class that has slots");
            clause!(tree.is_none_or(|t| res.row.as_tree() == t), "steal_any honours the requested tree");
        }
    });
}

#[kani::proof]
#[kani::unwind(10)]
#[kani::solver(kissat)]
#[kani::stub(crate::atomic::Atom::try_update, crate::atomic::Atom::try_update_seq)]
fn l1b_locals_demote_any() {
    check_demote_any([1, 1, 0]);
}
#[kani::proof]
#[kani::unwind(10)]
#[kani::solver(kissat)]
#[kani::stub(crate::atomic::Atom::try_update, crate::atomic::Atom::try_update_seq)]
fn l1b_locals_demote_any_0_1_2() {
    check_demote_any([0, 1, 2]);
}
#[kani::proof]
#[kani::unwind(10)]
#[kani::solver(kissat)]
#[kani::stub(crate::atomic::Atom::try_update, crate::atomic::Atom::try_update_seq)]
fn l1b_locals_demote_any_3_0_1() {
    check_demote_any([3, 0, 1]);
}
fn check_demote_any(cfg: [usize; 3]) {
    crate::verif_contracts::kpolicy::init(false);
    with_locals(cfg, |l, n| {
        let class: u8 = kani::any();
        kani::assume(class < 3);
        let local: Option<usize> = if kani::any() { Some(kani::any()) } else { None };
        kani::assume(local.is_none_or(|i| i < n[class as usize]));
        let free: usize = kani::any();
        kani::assume(free >= 1 && free <= TREE_FRAMES);
        let tree = any_opt_tree_small();
        let r = l.demote_any(Class(class), local, tree, free, kind_policy);
        vcover!(r.is_some(), "a reservation is demoted");
        if let Some((row, old)) = r {
            clause!(tree.is_none_or(|t| row.as_tree() == t), "demote_any honours the requested tree");
            if local.is_none() {
                clause!(old.is_some_and(|o| o.row == row && o.class.0 == class), "without a slot the demoted tree itself is handed back for unreservation");
            }
        }
    });
}

#[kani::proof]
#[kani::unwind(10)]
#[kani::stub(crate::atomic::Atom::try_update, crate::atomic::Atom::try_update_seq)]
fn l1b_locals_get_put_swap() {
    with_locals([1, 2, 0], |l, n| {
        let class: u8 = kani::any();
        kani::assume(class < 8);
        let idx: usize = kani::any();
        // valid parameter: slot index below the class's slot count (classes without slots get none)
        kani::assume((class as usize) < 3 && idx < n[class as usize]);
        let (p0, t0, f0, _) = slot_word(l, Class(class), idx);
        let free: usize = kani::any();
        kani::assume(free <= TREE_FRAMES);
        let tree = any_opt_tree_small();
        let r = l.get(Class(class), idx, tree, free);
        let (p1, t1, f1, _) = slot_word(l, Class(class), idx);
        match r {
            Ok(row) => {
                clause!(p0 && f0 >= free && f1 == f0 - free && tree.is_none_or(|t| t.0 == t0) && row.as_tree().0 == t0, "Locals::get decrements the slot counter of the held tree");
            }
            Err(_) => clause!(p1 == p0 && f1 == f0 && t1 == t0, "Locals::get: failure leaves the slot unchanged"),
        }
        let ptree = TreeId(kani::any::<usize>() % 4);
        let padd: usize = kani::any();
        kani::assume(padd <= TREE_FRAMES && f1 + padd <= TREE_FRAMES);
        let ok = l.put(Class(class), idx, ptree, padd);
        let (p2, t2, f2, _) = slot_word(l, Class(class), idx);
        clause!(ok == (p1 && t1 == ptree.0), "Locals::put succeeds iff the slot holds that tree");
        clause!(p2 == p1 && t2 == t1 && f2 == if ok { f1 + padd } else { f1 }, "Locals::put adds exactly the freed frames");
    });
}

/// `Locals::metadata_size` (C18): one cache-line slot per configured local slot.
#[kani::proof]
#[kani::unwind(6)]
fn l0_locals_metadata_size() {
    let n: [usize; 3] = kani::any();
    kani::assume(n[0] <= 64 && n[1] <= 64 && n[2] <= 64);
    let classing = Classing::new(&[(Class(0), n[0]), (Class(1), n[1]), (Class(2), n[2])], Class(0), |_, _, _| Policy::Match(0));
    clause!(Locals::metadata_size(&classing) == (n[0] + n[1] + n[2]) * SLOT_BYTES, "C18: the slot metadata holds one cache-line slot per configured local slot");
}

// ---------------------------------------------------------------------------------------------
// Slot words under interference (rely/guarantee environment `atomic::verif_contracts::senv`):
// any number of other threads may replace any slot word by any well-formed word between any two
// atomic operations of the call (symbolic budget of at most 2 replacements, then frozen).
//   conservation : the frames this call removes from slot words (value in memory at the instant of
//                  each write) minus the frames it writes back are exactly the frames it reports -
//                  allocated by the caller or handed back for unreservation. A reservation that is
//                  overwritten without being read atomically is lost (its frames can never be
//                  allocated or accounted again: C03/C04).
//   termination  : every retry loop ends once the environment is frozen (unwinding assertions, C21).
// ---------------------------------------------------------------------------------------------
use crate::atomic::verif_contracts::senv;
static mut UNRES_FREE: usize = 0;
static mut UNRES_N: usize = 0;

fn with_locals_rg<R>(n: [usize; 3], f: impl FnOnce(&Locals, [usize; 3]) -> R) -> R {
    with_locals(n, |l, n| {
        let budget: usize = kani::any();
        kani::assume(budget <= 2);
        senv::start(l.buffer.as_ptr() as usize, SLOT_BYTES * 4, budget);
        let r = f(l, n);
        senv::stop();
        r
    })
}
macro_rules! srg_harness {
    ($name:ident, $body:expr) => {
        #[kani::proof]
        #[kani::unwind(10)]
        #[kani::solver(kissat)]
        #[kani::stub(crate::atomic::Atom::load, crate::atomic::Atom::load_srg)]
        #[kani::stub(crate::atomic::Atom::store, crate::atomic::Atom::store_srg)]
        #[kani::stub(crate::atomic::Atom::swap, crate::atomic::Atom::swap_srg)]
        #[kani::stub(crate::atomic::Atom::compare_exchange, crate::atomic::Atom::compare_exchange_srg)]
        #[kani::stub(crate::atomic::Atom::try_update, crate::atomic::Atom::try_update_srg)]
        fn $name() {
            crate::verif_contracts::kpolicy::init(false);
            $body
        }
    };
}

fn rg_drain(cfg: [usize; 3]) {
    with_locals_rg(cfg, |l, _| {
        unsafe {
            UNRES_FREE = 0;
            UNRES_N = 0;
        }
        l.drain(|_row, _class, free| unsafe {
            UNRES_FREE += free;
            UNRES_N += 1;
        });
        let (taken, given, taken_n) = unsafe { (senv::TAKEN, senv::GIVEN, senv::TAKEN_N) };
        vcover!(taken_n > 0, "drain removes a reservation under interference");
        clause!(given == 0, "drain writes only empty slots");
        clause!(unsafe { UNRES_FREE } == taken && unsafe { UNRES_N } == taken_n, "C03/C04: drain hands every reservation it removes from a slot to unreserve, under every interleaving (no lost update)");
    });
}
srg_harness!(rg_locals_drain, rg_drain([1, 2, 0]));

fn rg_demote_any(cfg: [usize; 3]) {
    with_locals_rg(cfg, |l, n| {
        let class: u8 = kani::any();
        kani::assume(class < 3);
        let local: Option<usize> = if kani::any() { Some(kani::any()) } else { None };
        kani::assume(local.is_none_or(|i| i < n[class as usize]));
        let free: usize = kani::any();
        kani::assume(free >= 1 && free <= TREE_FRAMES);
        let tree = any_opt_tree_small();
        let r = l.demote_any(Class(class), local, tree, free, kind_policy);
        let (taken, given) = unsafe { (senv::TAKEN, senv::GIVEN) };
        vcover!(r.is_some(), "a reservation is demoted under interference");
        match r {
            Some((_, old)) => {
                let back = old.map_or(0, |o| o.free);
                clause!(taken == given + free + back, "C03/C04: demote_any conserves frames under every interleaving: removed == written back + allocated + handed back for unreservation");
            }
            None => clause!(taken == given, "C03/C04: a failed demote_any keeps no frames, under every interleaving"),
        }
    });
}
srg_harness!(rg_locals_demote_any, rg_demote_any([1, 1, 0]));
srg_harness!(rg_locals_demote_any_0_1_2, rg_demote_any([0, 1, 2]));

fn rg_steal_any(cfg: [usize; 3]) {
    with_locals_rg(cfg, |l, n| {
        let class: u8 = kani::any();
        kani::assume(class < 3);
        let index: Option<usize> = if kani::any() { Some(kani::any()) } else { None };
        kani::assume(index.is_none_or(|i| i < n[class as usize]));
        let free: usize = kani::any();
        kani::assume(free >= 1 && free <= TREE_FRAMES);
        let tree = any_opt_tree_small();
        let r = l.steal_any(Class(class), index, tree, free, kind_policy);
        let (taken, given) = unsafe { (senv::TAKEN, senv::GIVEN) };
        vcover!(r.is_some(), "frames are stolen under interference");
        clause!(taken == given + if r.is_some() { free } else { 0 }, "C03/C04: steal_any takes exactly the requested frames from a slot, or nothing, under every interleaving");
    });
}
srg_harness!(rg_locals_steal_any, rg_steal_any([1, 1, 0]));

fn rg_get_put_swap() {
    with_locals_rg([1, 2, 0], |l, n| {
        let class: u8 = kani::any();
        let idx: usize = kani::any();
        kani::assume((class as usize) < 3 && idx < n[class as usize]);
        let free: usize = kani::any();
        kani::assume(free <= TREE_FRAMES);
        let tree = any_opt_tree_small();
        let op: u8 = kani::any();
        if op == 0 {
            let r = l.get(Class(class), idx, tree, free);
            let (taken, given) = unsafe { (senv::TAKEN, senv::GIVEN) };
            clause!(taken == given + if r.is_ok() { free } else { 0 }, "C03/C04: Locals::get takes exactly the requested frames or nothing, under every interleaving");
        } else if op == 1 {
            let t = TreeId(kani::any::<usize>() % 4);
            // the caller frees frames it holds: the rely keeps counter + held frames within the tree
            let ok = l.put(Class(class), idx, t, 0);
            let (taken, given) = unsafe { (senv::TAKEN, senv::GIVEN) };
            clause!(taken == given || !ok, "C03/C04: Locals::put of nothing changes no counter");
        } else {
            let t: usize = kani::any();
            kani::assume(t < 4);
            let r = l.swap(Class(class), idx, TreeId(t), free);
            let (taken, given) = unsafe { (senv::TAKEN, senv::GIVEN) };
            clause!(given == free && taken == r.map_or(0, |o| o.free), "C03/C04: Locals::swap hands back exactly the reservation it replaced, under every interleaving");
        }
    });
}
srg_harness!(rg_locals_get_put_swap, rg_get_put_swap());
