//! Contracts for `core/src/atomic.rs`.
use super::*;
use crate::verif_contracts::{clause, vcover};

// ---------------------------------------------------------------------------------------------
// Sequential contract of `Atom::try_update` / `Atom::update`:
//   without interference the retry loop runs its closure exactly once on the current value;
//   Some(n) => the location now holds n and Ok(old) is returned; None => unchanged, Err(old).
// The two `*_seq` functions are that contract in executable form. They are installed as stubs in the
// sequential obligations of callers (a caller is checked against this contract, not the std loop,
// which CBMC would otherwise unroll to the unwinding bound at every call site) and are themselves
// checked against the real implementation by `l1a_atom_*` below, with an unwinding bound of ONE
// retry (unwinding assertion on) — i.e. the real loop provably never retries sequentially.
// ---------------------------------------------------------------------------------------------
impl<T: Atomic> Atom<T> {
    pub(crate) fn try_update_seq<F: FnMut(T) -> Option<T>>(&self, mut f: F) -> Result<T, T> {
        let old = self.load();
        match f(old) {
            Some(new) => {
                self.store(new);
                Ok(old)
            }
            None => Err(old),
        }
    }
    pub(crate) fn update_seq<F: FnMut(T) -> T>(&self, mut f: F) -> T {
        let old = self.load();
        let new = f(old);
        self.store(new);
        old
    }
}

fn check_try_update<T: Atomic + kani::Arbitrary + PartialEq>() {
    let init: T = kani::any();
    let res: Option<T> = if kani::any() { Some(kani::any()) } else { None };
    let a = Atom::<T>::new(init);
    let b = Atom::<T>::new(init);
    let mut calls_a = 0u32;
    let ra = a.try_update(|v| {
        calls_a += 1;
        clause!(v == init, "try_update passes the current value to the closure");
        res
    });
    let rb = b.try_update_seq(|_| res);
    vcover!(ra.is_ok(), "update applied");
    vcover!(ra.is_err(), "update refused");
    clause!(calls_a == 1, "C21: without interference try_update runs its closure exactly once");
    clause!(ra.is_ok() == rb.is_ok(), "try_update: same outcome as the sequential contract");
    clause!(a.load() == b.load(), "try_update: same final value as the sequential contract");
    match (ra, rb) {
        (Ok(x), Ok(y)) | (Err(x), Err(y)) => clause!(x == y && x == init, "try_update returns the previous value"),
        _ => {}
    }
}
#[kani::proof]
#[kani::unwind(2)]
fn l1a_atom_try_update_u64() {
    check_try_update::<u64>();
}
#[kani::proof]
#[kani::unwind(2)]
fn l1a_atom_try_update_u32() {
    check_try_update::<u32>();
}
#[kani::proof]
#[kani::unwind(2)]
fn l1a_atom_try_update_u16() {
    check_try_update::<u16>();
}

fn check_update<T: Atomic + kani::Arbitrary + PartialEq>() {
    let init: T = kani::any();
    let res: T = kani::any();
    let a = Atom::<T>::new(init);
    let mut calls = 0u32;
    let r = a.update(|v| {
        calls += 1;
        clause!(v == init, "update passes the current value to the closure");
        res
    });
    clause!(calls == 1, "C21: without interference update runs its closure exactly once");
    clause!(r == init && a.load() == res, "update stores the closure result and returns the previous value");
}
#[kani::proof]
#[kani::unwind(2)]
fn l1a_atom_update_u32() {
    check_update::<u32>();
}
#[kani::proof]
#[kani::unwind(2)]
fn l1a_atom_update_u64() {
    check_update::<u64>();
}

/// `compare_exchange`, `swap`, `fetch_or/and`: value semantics of the wrappers.
#[kani::proof]
fn l1a_atom_cas_swap() {
    let init: u64 = kani::any();
    let cur: u64 = kani::any();
    let new: u64 = kani::any();
    let a = Atom::<u64>::new(init);
    let r = a.compare_exchange(cur, new);
    clause!(r.is_ok() == (init == cur), "compare_exchange succeeds iff the value equals `current`");
    clause!(a.load() == if init == cur { new } else { init }, "compare_exchange stores `new` only on success");
    clause!(r == if init == cur { Ok(init) } else { Err(init) }, "compare_exchange returns the previous value");
    let b = Atom::<u64>::new(init);
    clause!(b.swap(new) == init && b.load() == new, "swap");
    let c = Atom::<u64>::new(init);
    clause!(c.fetch_or(new) == init && c.load() == (init | new), "fetch_or");
    clause!(c.fetch_and(cur) == (init | new) && c.load() == ((init | new) & cur), "fetch_and");
}

// ---------------------------------------------------------------------------------------------
// AtomicSlice::compare_exchange_all (sequential): all-or-nothing.
// ---------------------------------------------------------------------------------------------
fn check_cas_all<const N: usize>() {
    let init: [u16; N] = kani::any();
    let cur: u16 = kani::any();
    let new: u16 = kani::any();
    kani::assume(cur != new);
    let s: [Atom<u16>; N] = core::array::from_fn(|i| Atom::new(init[i]));
    let r = s[..].compare_exchange_all(cur, new);
    let mut all = true;
    let mut i = 0;
    while i < N {
        if init[i] != cur {
            all = false;
        }
        i += 1;
    }
    vcover!(r.is_ok(), "cas_all ok");
    vcover!(r.is_err(), "cas_all err");
    clause!(r.is_ok() == all, "compare_exchange_all succeeds iff every element equals `current`");
    let k: usize = kani::any();
    kani::assume(k < N);
    clause!(s[k].load() == if all { new } else { init[k] }, "compare_exchange_all: all elements exchanged, or none");
}
#[kani::proof]
#[kani::unwind(3)]
fn l1a_cas_all_n1() {
    check_cas_all::<1>();
}
#[kani::proof]
#[kani::unwind(4)]
fn l1a_cas_all_n2() {
    check_cas_all::<2>();
}
#[kani::proof]
#[kani::unwind(6)]
fn l1a_cas_all_n4() {
    check_cas_all::<4>();
}
#[kani::proof]
#[kani::unwind(10)]
fn l1a_cas_all_n8() {
    check_cas_all::<8>();
}

// Verified stub of `compare_exchange_all` (contract checked by l1a_cas_all_n*): all-or-nothing.
pub(crate) fn cas_all_contract<T: Atomic + PartialEq>(s: &[Atom<T>], current: T, new: T) -> core::result::Result<(), ()> {
    let mut all = true;
    let mut i = 0;
    while i < s.len() {
        if s[i].load() != current {
            all = false;
        }
        i += 1;
    }
    if all {
        let mut i = 0;
        while i < s.len() {
            s[i].store(new);
            i += 1;
        }
        Ok(())
    } else {
        Err(())
    }
}
