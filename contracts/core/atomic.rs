//! Contracts for `core/src/atomic.rs`.
use super::*;
use crate::verif_contracts::{clause, vcover};

// ---------------------------------------------------------------------------------------------
// Sequential contract of `Atom::try_update` / `Atom::update`:
//   without interference the retry loop runs its closure exactly once on the current value;
//   Some(n) => the location now holds n and Ok(old) is returned; None => unchanged, Err(old).
// The two `*_seq` functions are that contract in executable form. They are installed as stubs in the
// sequential obligations of callers (a caller is checked against this contract, not the std loop,
// which CBMC would otherwise unroll to the unwinding bound at every call site) and are themselves
// checked against the real implementation by `l1a_atom_*` below, with an unwinding bound of ONE
// retry (unwinding assertion on) — i.e. the real loop provably never retries sequentially.
// ---------------------------------------------------------------------------------------------
impl<T: Atomic> Atom<T> {
    pub(crate) fn try_update_seq<F: FnMut(T) -> Option<T>>(&self, mut f: F) -> Result<T, T> {
        let old = self.load();
        match f(old) {
            Some(new) => {
                self.store(new);
                Ok(old)
            }
            None => Err(old),
        }
    }
    pub(crate) fn update_seq<F: FnMut(T) -> T>(&self, mut f: F) -> T {
        let old = self.load();
        let new = f(old);
        self.store(new);
        old
    }
}

fn check_try_update<T: Atomic + kani::Arbitrary + PartialEq>() {
    let init: T = kani::any();
    let res: Option<T> = if kani::any() { Some(kani::any()) } else { None };
    let a = Atom::<T>::new(init);
    let b = Atom::<T>::new(init);
    let mut calls_a = 0u32;
    let ra = a.try_update(|v| {
        calls_a += 1;
        clause!(v == init, "try_update passes the current value to the closure");
        res
    });
    let rb = b.try_update_seq(|_| res);
    vcover!(ra.is_ok(), "update applied");
    vcover!(ra.is_err(), "update refused");
    clause!(calls_a == 1, "C21: without interference try_update runs its closure exactly once");
    clause!(ra.is_ok() == rb.is_ok(), "try_update: same outcome as the sequential contract");
    clause!(a.load() == b.load(), "try_update: same final value as the sequential contract");
    match (ra, rb) {
        (Ok(x), Ok(y)) | (Err(x), Err(y)) => clause!(x == y && x == init, "try_update returns the previous value"),
        _ => {}
    }
}
#[kani::proof]
#[kani::unwind(2)]
fn l1a_atom_try_update_u64() {
    check_try_update::<u64>();
}
#[kani::proof]
#[kani::unwind(2)]
fn l1a_atom_try_update_u32() {
    check_try_update::<u32>();
}
#[kani::proof]
#[kani::unwind(2)]
fn l1a_atom_try_update_u16() {
    check_try_update::<u16>();
}

fn check_update<T: Atomic + kani::Arbitrary + PartialEq>() {
    let init: T = kani::any();
    let res: T = kani::any();
    let a = Atom::<T>::new(init);
    let mut calls = 0u32;
    let r = a.update(|v| {
        calls += 1;
        clause!(v == init, "update passes the current value to the closure");
        res
    });
    clause!(calls == 1, "C21: without interference update runs its closure exactly once");
    clause!(r == init && a.load() == res, "update stores the closure result and returns the previous value");
}
#[kani::proof]
#[kani::unwind(2)]
fn l1a_atom_update_u32() {
    check_update::<u32>();
}
#[kani::proof]
#[kani::unwind(2)]
fn l1a_atom_update_u64() {
    check_update::<u64>();
}

/// `compare_exchange`, `swap`, `fetch_or/and`: value semantics of the wrappers.
#[kani::proof]
fn l1a_atom_cas_swap() {
    let init: u64 = kani::any();
    let cur: u64 = kani::any();
    let new: u64 = kani::any();
    let a = Atom::<u64>::new(init);
    let r = a.compare_exchange(cur, new);
    clause!(r.is_ok() == (init == cur), "compare_exchange succeeds iff the value equals `current`");
    clause!(a.load() == if init == cur { new } else { init }, "compare_exchange stores `new` only on success");
    clause!(r == if init == cur { Ok(init) } else { Err(init) }, "compare_exchange returns the previous value");
    let b = Atom::<u64>::new(init);
    clause!(b.swap(new) == init && b.load() == new, "swap");
    let c = Atom::<u64>::new(init);
    clause!(c.fetch_or(new) == init && c.load() == (init | new), "fetch_or");
    clause!(c.fetch_and(cur) == (init | new) && c.load() == ((init | new) & cur), "fetch_and");
}

// ---------------------------------------------------------------------------------------------
// AtomicSlice::compare_exchange_all (sequential): all-or-nothing.
// ---------------------------------------------------------------------------------------------
fn check_cas_all<const N: usize>() {
    let init: [u16; N] = kani::any();
    let cur: u16 = kani::any();
    let new: u16 = kani::any();
    kani::assume(cur != new);
    let s: [Atom<u16>; N] = core::array::from_fn(|i| Atom::new(init[i]));
    let r = s[..].compare_exchange_all(cur, new);
    let mut all = true;
    let mut i = 0;
    while i < N {
        if init[i] != cur {
            all = false;
        }
        i += 1;
    }
    vcover!(r.is_ok(), "cas_all ok");
    vcover!(r.is_err(), "cas_all err");
    clause!(r.is_ok() == all, "compare_exchange_all succeeds iff every element equals `current`");
    let k: usize = kani::any();
    kani::assume(k < N);
    clause!(s[k].load() == if all { new } else { init[k] }, "compare_exchange_all: all elements exchanged, or none");
}
#[kani::proof]
#[kani::unwind(3)]
fn l1a_cas_all_n1() {
    check_cas_all::<1>();
}
#[kani::proof]
#[kani::unwind(4)]
fn l1a_cas_all_n2() {
    check_cas_all::<2>();
}
#[kani::proof]
#[kani::unwind(6)]
fn l1a_cas_all_n4() {
    check_cas_all::<4>();
}
#[kani::proof]
#[kani::unwind(10)]
fn l1a_cas_all_n8() {
    check_cas_all::<8>();
}

// Verified stub of `compare_exchange_all` (contract checked by l1a_cas_all_n*): all-or-nothing.
pub(crate) fn cas_all_contract<T: Atomic + PartialEq>(s: &[Atom<T>], current: T, new: T) -> core::result::Result<(), ()> {
    let mut all = true;
    let mut i = 0;
    while i < s.len() {
        if s[i].load() != current {
            all = false;
        }
        i += 1;
    }
    if all {
        let mut i = 0;
        while i < s.len() {
            s[i].store(new);
            i += 1;
        }
        Ok(())
    } else {
        Err(())
    }
}

// ---------------------------------------------------------------------------------------------
// Thread-modular rely/guarantee environment (DESIGN.md section 4).
// One thread is verified against ANY number of other threads: immediately before each atomic
// access of the verified thread to a word of the registered region the environment may overwrite
// that word with any value the RELY allows (havocking a location lazily just before it is
// accessed is equivalent to arbitrary activity of other threads between any two atomic
// operations of this thread, because this thread observes shared memory only through `Atom`).
//   RELY      : other threads never change a bit this thread owns (owned bits are set).
//   GUARANTEE : every write of this thread either claims bits (all changed bits were 0 and become 1:
//               they become owned) or releases bits it owns (owned bits become 0).
// Installed with `#[kani::stub]` on the `Atom` methods; the stubs perform the same raw atomic
// operation the wrapper performs. `try_update` mirrors std's fetch_update loop with one possible
// interference between the load and the CAS (then the retry runs undisturbed).
// ---------------------------------------------------------------------------------------------
pub(crate) mod env {
    pub const MAXW: usize = 8;
    pub static mut ON: bool = false;
    pub static mut BASE: usize = 0;
    pub static mut NWORDS: usize = 0;
    pub static mut OWN: [u64; MAXW] = [0; MAXW];
    /// number of environment writes still allowed (symbolic freeze point for C21)
    pub static mut BUDGET: usize = 0;

    pub unsafe fn raw_read(addr: usize, size: usize) -> u64 {
        unsafe {
            match size {
                1 => *(addr as *const u8) as u64,
                2 => *(addr as *const u16) as u64,
                4 => *(addr as *const u32) as u64,
                _ => *(addr as *const u64),
            }
        }
    }
    pub unsafe fn raw_write(addr: usize, size: usize, v: u64) {
        unsafe {
            match size {
                1 => *(addr as *mut u8) = v as u8,
                2 => *(addr as *mut u16) = v as u16,
                4 => *(addr as *mut u32) = v as u32,
                _ => *(addr as *mut u64) = v,
            }
        }
    }
    /// (word index, bit shift inside the word, value mask) of an access inside the region
    fn locate(addr: usize, size: usize) -> Option<(usize, u32, u64)> {
        let (base, n) = unsafe { (BASE, NWORDS) };
        if unsafe { ON } && addr >= base && addr + size <= base + n * 8 {
            let off = addr - base;
            let mask = if size >= 8 { u64::MAX } else { (1u64 << (size * 8)) - 1 };
            Some((off / 8, ((off % 8) * 8) as u32, mask))
        } else {
            None
        }
    }
    /// Environment step on the location about to be accessed.
    pub fn interfere(addr: usize, size: usize) {
        if let Some((w, shift, mask)) = locate(addr, size) {
            unsafe {
                if BUDGET > 0 && kani::any() {
                    let v: u64 = kani::any();
                    let own = (OWN[w] >> shift) & mask;
                    kani::assume(v & !mask == 0 && v & own == own);
                    raw_write(addr, size, v);
                    BUDGET -= 1;
                }
            }
        }
    }
    /// Guarantee check + ghost ownership update for a write of this thread.
    pub fn guarantee(addr: usize, size: usize, old: u64, new: u64) {
        if let Some((w, shift, mask)) = locate(addr, size) {
            let diff = (old ^ new) & mask;
            if diff != 0 {
                unsafe {
                    let own = (OWN[w] >> shift) & mask;
                    let claim = new & diff == diff;
                    let release = old & diff == diff && own & diff == diff;
                    kani::assert(claim || release, "C01 guarantee: a write either claims bits that were all free or releases bits this thread owns");
                    if claim {
                        OWN[w] |= diff << shift;
                    } else {
                        OWN[w] &= !(diff << shift);
                    }
                }
            }
        }
    }
}

impl<T: Atomic> Atom<T> {
    fn rg_addr(&self) -> usize {
        self as *const Self as usize
    }
    pub(crate) fn load_rg(&self) -> T {
        env::interfere(self.rg_addr(), core::mem::size_of::<T>());
        self.0.load().into()
    }
    pub(crate) fn store_rg(&self, v: T) {
        let (a, s) = (self.rg_addr(), core::mem::size_of::<T>());
        env::interfere(a, s);
        let old = unsafe { env::raw_read(a, s) };
        self.0.store(v.into());
        env::guarantee(a, s, old, unsafe { env::raw_read(a, s) });
    }
    pub(crate) fn compare_exchange_rg(&self, current: T, new: T) -> core::result::Result<T, T> {
        let (a, s) = (self.rg_addr(), core::mem::size_of::<T>());
        env::interfere(a, s);
        let old = unsafe { env::raw_read(a, s) };
        match self.0.compare_exchange(current.into(), new.into()) {
            Ok(v) => {
                env::guarantee(a, s, old, unsafe { env::raw_read(a, s) });
                Ok(v.into())
            }
            Err(v) => Err(v.into()),
        }
    }
    pub(crate) fn try_update_rg<F: FnMut(T) -> Option<T>>(&self, mut f: F) -> core::result::Result<T, T> {
        let (a, s) = (self.rg_addr(), core::mem::size_of::<T>());
        env::interfere(a, s);
        let mut prev = self.0.load();
        let mut first = true;
        loop {
            let Some(next) = f(prev.into()) else {
                return Err(prev.into());
            };
            if first {
                env::interfere(a, s);
                first = false;
            }
            let old = unsafe { env::raw_read(a, s) };
            match self.0.compare_exchange(prev, next.into()) {
                Ok(v) => {
                    env::guarantee(a, s, old, unsafe { env::raw_read(a, s) });
                    return Ok(v.into());
                }
                Err(v) => prev = v,
            }
        }
    }
}
