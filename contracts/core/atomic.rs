//! Contracts for `core/src/atomic.rs`.
use super::*;
use crate::verif_contracts::{clause, vcover};

// ---------------------------------------------------------------------------------------------
// Sequential contract of `Atom::try_update` / `Atom::update`:
//   without interference the retry loop runs its closure exactly once on the current value;
//   Some(n) => the location now holds n and Ok(old) is returned; None => unchanged, Err(old).
// The two `*_seq` functions are that contract in executable form. They are installed as stubs in the
// sequential obligations of callers (a caller is checked against this contract, not the std loop,
// which CBMC would otherwise unroll to the unwinding bound at every call site) and are themselves
// checked against the real implementation by `l1a_atom_*` below, with an unwinding bound of ONE
// retry (unwinding assertion on) — i.e. the real loop provably never retries sequentially.
// ---------------------------------------------------------------------------------------------
impl<T: Atomic> Atom<T> {
    pub(crate) fn try_update_seq<F: FnMut(T) -> Option<T>>(&self, mut f: F) -> Result<T, T> {
        let old = self.load();
        match f(old) {
            Some(new) => {
                self.store(new);
                Ok(old)
            }
            None => Err(old),
        }
    }
    pub(crate) fn update_seq<F: FnMut(T) -> T>(&self, mut f: F) -> T {
        let old = self.load();
        let new = f(old);
        self.store(new);
        old
    }
}

fn check_try_update<T: Atomic + kani::Arbitrary + PartialEq>() {
    let init: T = kani::any();
    let res: Option<T> = if kani::any() { Some(kani::any()) } else { None };
    let a = Atom::<T>::new(init);
    let b = Atom::<T>::new(init);
    let mut calls_a = 0u32;
    let ra = a.try_update(|v| {
        calls_a += 1;
        clause!(v == init, "try_update passes the current value to the closure");
        res
    });
    let rb = b.try_update_seq(|_| res);
    vcover!(ra.is_ok(), "update applied");
    vcover!(ra.is_err(), "update refused");
    clause!(calls_a == 1, "C21: without interference try_update runs its closure exactly once");
    clause!(ra.is_ok() == rb.is_ok(), "try_update: same outcome as the sequential contract");
    clause!(a.load() == b.load(), "try_update: same final value as the sequential contract");
    match (ra, rb) {
        (Ok(x), Ok(y)) | (Err(x), Err(y)) => clause!(x == y && x == init, "try_update returns the previous value"),
        _ => {}
    }
}
#[kani::proof]
#[kani::unwind(2)]
fn l1a_atom_try_update_u64() {
    check_try_update::<u64>();
}
#[kani::proof]
#[kani::unwind(2)]
fn l1a_atom_try_update_u32() {
    check_try_update::<u32>();
}
#[kani::proof]
#[kani::unwind(2)]
fn l1a_atom_try_update_u16() {
    check_try_update::<u16>();
}

fn check_update<T: Atomic + kani::Arbitrary + PartialEq>() {
    let init: T = kani::any();
    let res: T = kani::any();
    let a = Atom::<T>::new(init);
    let mut calls = 0u32;
    let r = a.update(|v| {
        calls += 1;
        clause!(v == init, "update passes the current value to the closure");
        res
    });
    clause!(calls == 1, "C21: without interference update runs its closure exactly once");
    clause!(r == init && a.load() == res, "update stores the closure result and returns the previous value");
}
#[kani::proof]
#[kani::unwind(2)]
fn l1a_atom_update_u32() {
    check_update::<u32>();
}
#[kani::proof]
#[kani::unwind(2)]
fn l1a_atom_update_u64() {
    check_update::<u64>();
}

/// `compare_exchange`, `swap`, `fetch_or/and`: value semantics of the wrappers.
#[kani::proof]
fn l1a_atom_cas_swap() {
    let init: u64 = kani::any();
    let cur: u64 = kani::any();
    let new: u64 = kani::any();
    let a = Atom::<u64>::new(init);
    let r = a.compare_exchange(cur, new);
    clause!(r.is_ok() == (init == cur), "compare_exchange succeeds iff the value equals `current`");
    clause!(a.load() == if init == cur { new } else { init }, "compare_exchange stores `new` only on success");
    clause!(r == if init == cur { Ok(init) } else { Err(init) }, "compare_exchange returns the previous value");
    let b = Atom::<u64>::new(init);
    clause!(b.swap(new) == init && b.load() == new, "swap");
    let c = Atom::<u64>::new(init);
    clause!(c.fetch_or(new) == init && c.load() == (init | new), "fetch_or");
    clause!(c.fetch_and(cur) == (init | new) && c.load() == ((init | new) & cur), "fetch_and");
}

// ---------------------------------------------------------------------------------------------
// AtomicSlice::compare_exchange_all (sequential): all-or-nothing.
// ---------------------------------------------------------------------------------------------
fn check_cas_all<const N: usize>() {
    let init: [u16; N] = kani::any();
    let cur: u16 = kani::any();
    let new: u16 = kani::any();
    kani::assume(cur != new);
    let s: [Atom<u16>; N] = core::array::from_fn(|i| Atom::new(init[i]));
    let r = s[..].compare_exchange_all(cur, new);
    let mut all = true;
    let mut i = 0;
    while i < N {
        if init[i] != cur {
            all = false;
        }
        i += 1;
    }
    vcover!(r.is_ok(), "cas_all ok");
    vcover!(r.is_err(), "cas_all err");
    clause!(r.is_ok() == all, "compare_exchange_all succeeds iff every element equals `current`");
    let k: usize = kani::any();
    kani::assume(k < N);
    clause!(s[k].load() == if all { new } else { init[k] }, "compare_exchange_all: all elements exchanged, or none");
}
#[kani::proof]
#[kani::unwind(3)]
fn l1a_cas_all_n1() {
    check_cas_all::<1>();
}
#[kani::proof]
#[kani::unwind(4)]
fn l1a_cas_all_n2() {
    check_cas_all::<2>();
}
#[kani::proof]
#[kani::unwind(6)]
fn l1a_cas_all_n4() {
    check_cas_all::<4>();
}
#[kani::proof]
#[kani::unwind(10)]
fn l1a_cas_all_n8() {
    check_cas_all::<8>();
}

// Verified stub of `compare_exchange_all` (contract checked by l1a_cas_all_n*): all-or-nothing.
pub(crate) fn cas_all_contract<T: Atomic + PartialEq>(s: &[Atom<T>], current: T, new: T) -> core::result::Result<(), ()> {
    let mut all = true;
    let mut i = 0;
    while i < s.len() {
        if s[i].load() != current {
            all = false;
        }
        i += 1;
    }
    if all {
        let mut i = 0;
        while i < s.len() {
            s[i].store(new);
            i += 1;
        }
        Ok(())
    } else {
        Err(())
    }
}

// ---------------------------------------------------------------------------------------------
// Thread-modular rely/guarantee environment (DESIGN.md section 4).
// One thread is verified against ANY number of other threads: immediately before each atomic
// access of the verified thread to a word of the registered region the environment may overwrite
// that word with any value the RELY allows (havocking a location lazily just before it is
// accessed is equivalent to arbitrary activity of other threads between any two atomic
// operations of this thread, because this thread observes shared memory only through `Atom`).
//   RELY      : other threads never change a bit this thread owns (owned bits are set).
//   GUARANTEE : every write of this thread either claims bits (all changed bits were 0 and become 1:
//               they become owned) or releases bits it owns (owned bits become 0).
// Installed with `#[kani::stub]` on the `Atom` methods; the stubs perform the same raw atomic
// operation the wrapper performs. `try_update` mirrors std's fetch_update loop with one possible
// interference between the load and the CAS (then the retry runs undisturbed).
// ---------------------------------------------------------------------------------------------
pub(crate) mod env {
    pub const MAXW: usize = 32;
    pub const MAXH: usize = 4;
    /// 64-bit words per bitfield (4K geometry)
    pub const WPB: usize = 8;
    pub static mut ON: bool = false;
    pub static mut BASE: usize = 0;
    pub static mut NWORDS: usize = 0;
    pub static mut OWN: [u64; MAXW] = [0; MAXW];
    /// number of environment writes still allowed (symbolic freeze point for C21)
    pub static mut BUDGET: usize = 0;
    /// counter-protocol accounting (lower-allocator obligations): units of the huge frame's counter
    /// this thread has reserved (decremented, bits not yet claimed), released (bits cleared, counter
    /// not yet incremented) and the number of bits it owns.
    pub static mut UNITS_ON: bool = false;
    pub static mut RES: [usize; MAXH] = [0; MAXH];
    pub static mut PEND: [usize; MAXH] = [0; MAXH];
    pub static mut OWNED_BITS: [usize; MAXH] = [0; MAXH];

    /// Raw accesses go through the original pointer (no integer-to-pointer cast: CBMC would have to
    /// consider every object for such a pointer).
    pub unsafe fn raw_read(p: *const u8, size: usize) -> u64 {
        unsafe {
            match size {
                1 => *p as u64,
                2 => *(p as *const u16) as u64,
                4 => *(p as *const u32) as u64,
                _ => *(p as *const u64),
            }
        }
    }
    pub unsafe fn raw_write(p: *mut u8, size: usize, v: u64) {
        unsafe {
            match size {
                1 => *p = v as u8,
                2 => *(p as *mut u16) = v as u16,
                4 => *(p as *mut u32) = v as u32,
                _ => *(p as *mut u64) = v,
            }
        }
    }
    /// (word index, bit shift inside the word, value mask) of an access inside the region
    fn locate(addr: usize, size: usize) -> Option<(usize, u32, u64)> {
        let (base, n) = unsafe { (BASE, NWORDS) };
        if unsafe { ON } && addr >= base && addr + size <= base + n * 8 {
            let off = addr - base;
            let mask = if size >= 8 { u64::MAX } else { (1u64 << (size * 8)) - 1 };
            Some((off / 8, ((off % 8) * 8) as u32, mask))
        } else {
            None
        }
    }
    /// Environment step on the location about to be accessed.
    pub fn interfere(p: *const u8, size: usize) {
        let addr = p as usize;
        if let Some((w, shift, mask)) = locate(addr, size) {
            unsafe {
                if BUDGET > 0 && kani::any() {
                    let v: u64 = kani::any();
                    let own = (OWN[w] >> shift) & mask;
                    kani::assume(v & !mask == 0 && v & own == own);
                    raw_write(p as *mut u8, size, v);
                    BUDGET -= 1;
                }
            }
        }
    }
    /// Guarantee check + ghost ownership update for a write of this thread.
    pub fn guarantee(p: *const u8, size: usize, old: u64, new: u64) {
        if let Some((w, shift, mask)) = locate(p as usize, size) {
            let diff = (old ^ new) & mask;
            if diff != 0 {
                unsafe {
                    let own = (OWN[w] >> shift) & mask;
                    let claim = new & diff == diff;
                    let release = old & diff == diff && own & diff == diff;
                    kani::assert(claim || release, "C01 guarantee: a write either claims bits that were all free or releases bits this thread owns");
                    let k = diff.count_ones() as usize;
                    if claim {
                        OWN[w] |= diff << shift;
                        if UNITS_ON {
                            let h = w / WPB;
                            kani::assert(RES[h] >= k, "C01/C05 guarantee: bits are claimed only against counter units reserved before (counter first, then bits)");
                            RES[h] -= k;
                            OWNED_BITS[h] += k;
                        }
                    } else {
                        OWN[w] &= !(diff << shift);
                        if UNITS_ON {
                            let h = w / WPB;
                            OWNED_BITS[h] -= k;
                            PEND[h] += k;
                        }
                    }
                }
            }
        }
    }
}

/// Rely/guarantee for ONE huge frame's counter entry (u16) under the counter-then-bits protocol.
///   RELY      : while this thread owns bits of the frame or has reserved / released units (UNITS > 0)
///               other threads keep the entry a counter (no marker) with counter + UNITS <= LEN - this is
///               what every thread's guarantee implies (counter = zeros - reserved - pending of all threads);
///               otherwise they may store any well-formed entry.
///   GUARANTEE : this thread decrements by k (reserving k units) or increments by k units it reserved
///               (undo) or released (free).
pub(crate) mod cenv {
    use super::env;
    pub static mut ON: bool = false;
    /// address of entry 0 of the table and number of entries under the environment
    pub static mut PTR: usize = 0;
    pub static mut N: usize = 1;
    pub const LEN: u16 = crate::HUGE_FRAMES as u16;
    fn locate(p: *const u8) -> Option<usize> {
        let (b, n) = unsafe { (PTR, N) };
        let a = p as usize;
        if unsafe { ON } && a >= b && a < b + 2 * n { Some((a - b) / 2) } else { None }
    }
    fn units(i: usize) -> usize {
        unsafe { env::RES[i] + env::PEND[i] + env::OWNED_BITS[i] }
    }
    pub fn interfere(p: *const u8) {
        if let Some(i) = locate(p) {
            unsafe {
                if env::BUDGET > 0 && kani::any() {
                    let e: u16 = kani::any();
                    kani::assume(admissible_at(i, e));
                    *(p as *mut u16) = e;
                    env::BUDGET -= 1;
                }
            }
        }
    }
    /// an entry value the rely allows for entry i (also the constraint on the initial state)
    pub fn admissible_at(i: usize, e: u16) -> bool {
        let u = units(i);
        (e == u16::MAX || e <= LEN) && (u == 0 || (e != u16::MAX && e as usize + u <= LEN as usize))
    }
    pub fn admissible(e: u16) -> bool {
        admissible_at(0, e)
    }
    pub fn guarantee(p: *const u8, old: u16, new: u16) {
        if let Some(i) = locate(p) {
            if old != new {
                unsafe {
                    kani::assert(old != u16::MAX && new != u16::MAX, "C01 guarantee: the small-order paths never write the whole-huge-frame marker");
                    if new < old {
                        env::RES[i] += (old - new) as usize;
                    } else {
                        // units come back from released bits (a free, or the rollback of a partial multi-row
                        // claim) and from reservations that were never turned into bits (undo)
                        let k = (new - old) as usize;
                        kani::assert(env::PEND[i] + env::RES[i] >= k, "C05 guarantee: the counter is incremented only by units this thread reserved or released");
                        let from_pend = if env::PEND[i] >= k { k } else { env::PEND[i] };
                        env::PEND[i] -= from_pend;
                        env::RES[i] -= k - from_pend;
                    }
                }
            }
        }
    }
}

impl<T: Atomic> Atom<T> {
    fn rg_addr(&self) -> *const u8 {
        self as *const Self as *const u8
    }
    pub(crate) fn load_rg(&self) -> T {
        env::interfere(self.rg_addr(), core::mem::size_of::<T>());
        cenv::interfere(self.rg_addr());
        self.0.load().into()
    }
    pub(crate) fn store_rg(&self, v: T) {
        let (a, s) = (self.rg_addr(), core::mem::size_of::<T>());
        env::interfere(a, s);
        let old = unsafe { env::raw_read(a, s) };
        self.0.store(v.into());
        env::guarantee(a, s, old, unsafe { env::raw_read(a, s) });
    }
    pub(crate) fn compare_exchange_rg(&self, current: T, new: T) -> core::result::Result<T, T> {
        let (a, s) = (self.rg_addr(), core::mem::size_of::<T>());
        env::interfere(a, s);
        let old = unsafe { env::raw_read(a, s) };
        match self.0.compare_exchange(current.into(), new.into()) {
            Ok(v) => {
                env::guarantee(a, s, old, unsafe { env::raw_read(a, s) });
                Ok(v.into())
            }
            Err(v) => Err(v.into()),
        }
    }
    pub(crate) fn try_update_rg<F: FnMut(T) -> Option<T>>(&self, mut f: F) -> core::result::Result<T, T> {
        let (a, s) = (self.rg_addr(), core::mem::size_of::<T>());
        env::interfere(a, s);
        cenv::interfere(a);
        let mut prev = self.0.load();
        let mut first = true;
        loop {
            let Some(next) = f(prev.into()) else {
                return Err(prev.into());
            };
            if first {
                env::interfere(a, s);
                cenv::interfere(a);
                first = false;
            }
            let old = unsafe { env::raw_read(a, s) };
            match self.0.compare_exchange(prev, next.into()) {
                Ok(v) => {
                    env::guarantee(a, s, old, unsafe { env::raw_read(a, s) });
                    if s == 2 {
                        cenv::guarantee(a, old as u16, unsafe { env::raw_read(a, s) } as u16);
                    }
                    return Ok(v.into());
                }
                Err(v) => prev = v,
            }
        }
    }
}

// ---------------------------------------------------------------------------------------------
// Rely/guarantee for whole huge frames (table entries, u16): orders >= HUGE_ORDER allocate and free
// only through `compare_exchange_all` over entries.
//   RELY      : other threads never change an entry this thread owns as a whole huge frame;
//               otherwise they may store any value.
//   GUARANTEE : this thread writes an entry only free(LEN) -> huge (claim) or, if it owns it,
//               huge -> free(LEN) (release).
// ---------------------------------------------------------------------------------------------
pub(crate) mod eenv {
    pub const MAXE: usize = 8;
    pub static mut ON: bool = false;
    pub static mut BASE: usize = 0;
    pub static mut N: usize = 0;
    pub static mut OWN: [bool; MAXE] = [false; MAXE];
    pub static mut BUDGET: usize = 0;
    pub const FREE: u16 = crate::HUGE_FRAMES as u16;
    pub const HUGE: u16 = u16::MAX;
    fn locate(addr: usize) -> Option<usize> {
        let (b, n) = unsafe { (BASE, N) };
        if unsafe { ON } && addr >= b && addr < b + 2 * n { Some((addr - b) / 2) } else { None }
    }
    pub fn interfere(p: *const u8) {
        if let Some(i) = locate(p as usize) {
            unsafe {
                if !OWN[i] && BUDGET > 0 && kani::any() {
                    *(p as *mut u16) = kani::any();
                    BUDGET -= 1;
                }
            }
        }
    }
    pub fn guarantee(p: *const u8, old: u16, new: u16) {
        if let Some(i) = locate(p as usize) {
            if old != new {
                unsafe {
                    let claim = old == FREE && new == HUGE;
                    let release = old == HUGE && new == FREE && OWN[i];
                    kani::assert(claim || release, "C01 guarantee: an entry is written only to claim an entirely free huge frame or to release one this thread owns");
                    OWN[i] = claim;
                }
            }
        }
    }
}
impl<T: Atomic> Atom<T> {
    /// compare_exchange under the entry environment (T is a 2-byte entry type).
    pub(crate) fn compare_exchange_erg(&self, current: T, new: T) -> core::result::Result<T, T> {
        let a = self.rg_addr();
        eenv::interfere(a);
        let old = unsafe { *(a as *const u16) };
        match self.0.compare_exchange(current.into(), new.into()) {
            Ok(v) => {
                eenv::guarantee(a, old, unsafe { *(a as *const u16) });
                Ok(v.into())
            }
            Err(v) => Err(v.into()),
        }
    }
}

/// `compare_exchange_all` claiming (alloc) / releasing (free) N whole huge frames under interference.
fn rg_cas_all<const N: usize>(free: bool) {
    let init: [u16; 4] = kani::any();
    let tab: crate::util::Align<[Atom<u16>; 4]> = crate::util::Align(core::array::from_fn(|i| Atom::new(init[i])));
    let first: usize = kani::any();
    kani::assume(first < 4 && first % N == 0 && first + N <= 4);
    let own0: [bool; 4] = kani::any();
    let mut i = 0;
    while i < 4 {
        kani::assume(!own0[i] || init[i] == eenv::HUGE); // owned entries carry the marker
        if free {
            kani::assume(i < first || i >= first + N || own0[i]); // the caller holds the block
        }
        i += 1;
    }
    unsafe {
        eenv::BASE = &tab.0[0] as *const Atom<u16> as usize;
        eenv::N = 4;
        let mut i = 0;
        while i < 4 {
            eenv::OWN[i] = own0[i];
            i += 1;
        }
        eenv::BUDGET = kani::any();
        eenv::ON = true;
    }
    let r = if free { tab.0[first..first + N].compare_exchange_all(eenv::HUGE, eenv::FREE) } else { tab.0[first..first + N].compare_exchange_all(eenv::FREE, eenv::HUGE) };
    vcover!(r.is_ok(), "multi-entry exchange succeeds under interference");
    let mut i = 0;
    while i < 4 {
        let own = unsafe { eenv::OWN[i] };
        let inside = i >= first && i < first + N;
        if free {
            clause!(r.is_ok(), "C03: the free of held huge frames succeeds under every interleaving");
            clause!(own == (own0[i] && !inside), "C01: a huge free releases exactly the block");
        } else if r.is_ok() {
            clause!(own == (own0[i] || inside), "C01: a successful huge allocation owns exactly the block, under every interleaving");
            clause!(!(inside && own0[i]), "C01: the allocated huge frames were not already held by this thread");
        } else {
            clause!(own == own0[i], "C01: a failed huge allocation keeps nothing (rollback), under every interleaving");
        }
        i += 1;
    }
}
macro_rules! erg_harness {
    ($name:ident, $n:expr, $free:expr) => {
        #[kani::proof]
        #[kani::unwind(8)]
        #[kani::stub(crate::atomic::Atom::compare_exchange, crate::atomic::Atom::compare_exchange_erg)]
        fn $name() {
            rg_cas_all::<$n>($free);
        }
    };
}
erg_harness!(rg_cas_all_alloc_n1, 1, false);
erg_harness!(rg_cas_all_alloc_n2, 2, false);
erg_harness!(rg_cas_all_alloc_n4, 4, false);
erg_harness!(rg_cas_all_free_n1, 1, true);
erg_harness!(rg_cas_all_free_n2, 2, true);
erg_harness!(rg_cas_all_free_n4, 4, true);

// ---------------------------------------------------------------------------------------------
// Rely/guarantee for the per-core SLOT words (`local::Local::tree`, u64) - the first step above the
// lower allocator. A slot word is shared: its owner allocates from it, every other thread may steal
// from it, demote it or drain it.
//   RELY      : between any two of this thread's atomic operations other threads may replace a slot
//               word by any well-formed slot word (within a symbolic interference budget, after
//               which the environment is frozen: C21).
//   GUARANTEE : (ghost accounting) every write of this thread replaces the value that is IN MEMORY
//               at that instant; the frames of that value are TAKEN by this thread, the frames of the
//               value it writes are GIVEN. The call contracts in `local.rs` then demand conservation:
//               TAKEN - GIVEN == frames the call reports (allocated, or handed back for unreservation).
//               A load followed by a plain store (lost update) breaks it whenever the environment
//               steps between the two.
// ---------------------------------------------------------------------------------------------
pub(crate) mod senv {
    use crate::local::verif_contracts::{slot_fields, slot_wf};
    pub static mut ON: bool = false;
    pub static mut BASE: usize = 0;
    pub static mut LEN: usize = 0;
    pub static mut BUDGET: usize = 0;
    pub static mut TAKEN: usize = 0;
    pub static mut GIVEN: usize = 0;
    /// number of present values this thread replaced
    pub static mut TAKEN_N: usize = 0;
    fn inside(p: *const u8, size: usize) -> bool {
        let a = p as usize;
        unsafe { ON && size == 8 && a >= BASE && a < BASE + LEN }
    }
    pub fn interfere(p: *const u8, size: usize) {
        if inside(p, size) {
            unsafe {
                if BUDGET > 0 && kani::any() {
                    let v: u64 = kani::any();
                    kani::assume(slot_wf(v));
                    *(p as *mut u64) = v;
                    BUDGET -= 1;
                }
            }
        }
    }
    pub fn wrote(p: *const u8, size: usize, old: u64, new: u64) {
        if inside(p, size) {
            let (po, _, fo) = slot_fields(old);
            let (pn, _, fn_) = slot_fields(new);
            unsafe {
                if po {
                    TAKEN += fo;
                    TAKEN_N += 1;
                }
                if pn {
                    GIVEN += fn_;
                }
            }
        }
    }
    pub fn start(base: usize, len: usize, budget: usize) {
        unsafe {
            BASE = base;
            LEN = len;
            BUDGET = budget;
            TAKEN = 0;
            GIVEN = 0;
            TAKEN_N = 0;
            ON = true;
        }
    }
    pub fn stop() {
        unsafe { ON = false }
    }
}
impl<T: Atomic> Atom<T> {
    pub(crate) fn load_srg(&self) -> T {
        senv::interfere(self.rg_addr(), core::mem::size_of::<T>());
        self.0.load().into()
    }
    pub(crate) fn store_srg(&self, v: T) {
        let (a, s) = (self.rg_addr(), core::mem::size_of::<T>());
        senv::interfere(a, s);
        let old = unsafe { env::raw_read(a, s) };
        self.0.store(v.into());
        senv::wrote(a, s, old, unsafe { env::raw_read(a, s) });
    }
    pub(crate) fn swap_srg(&self, v: T) -> T {
        let (a, s) = (self.rg_addr(), core::mem::size_of::<T>());
        senv::interfere(a, s);
        let old = unsafe { env::raw_read(a, s) };
        let r = self.0.swap(v.into());
        senv::wrote(a, s, old, unsafe { env::raw_read(a, s) });
        r.into()
    }
    pub(crate) fn compare_exchange_srg(&self, current: T, new: T) -> core::result::Result<T, T> {
        let (a, s) = (self.rg_addr(), core::mem::size_of::<T>());
        senv::interfere(a, s);
        let old = unsafe { env::raw_read(a, s) };
        match self.0.compare_exchange(current.into(), new.into()) {
            Ok(v) => {
                senv::wrote(a, s, old, unsafe { env::raw_read(a, s) });
                Ok(v.into())
            }
            Err(v) => Err(v.into()),
        }
    }
    /// std's `try_update` loop (load, closure, CAS, on failure retry with the value the CAS returned),
    /// with an environment step before the load and before every CAS.
    pub(crate) fn try_update_srg<F: FnMut(T) -> Option<T>>(&self, mut f: F) -> core::result::Result<T, T> {
        let (a, s) = (self.rg_addr(), core::mem::size_of::<T>());
        senv::interfere(a, s);
        let mut prev = self.0.load();
        loop {
            let Some(next) = f(prev.into()) else {
                return Err(prev.into());
            };
            senv::interfere(a, s);
            let old = unsafe { env::raw_read(a, s) };
            match self.0.compare_exchange(prev, next.into()) {
                Ok(v) => {
                    senv::wrote(a, s, old, unsafe { env::raw_read(a, s) });
                    return Ok(v.into());
                }
                Err(v) => prev = v,
            }
        }
    }
}
