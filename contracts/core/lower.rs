//! Contracts for `core/src/lower.rs` (child module: sees `HugeEntry`, `Lower { len, bitfields, children }`).
use super::*;
use crate::bitfield::verif_contracts::{any_rows, blk, blk_all, for_rows, rows_eq, rows_of, rows_with_blk, Blk, Rows};
use crate::verif_contracts::{clause, vcover};
use crate::atomic::AtomicImpl;

const ROWS: usize = HUGE_FRAMES / 64;
const LEN: usize = Bitfield::LEN;

// ---------------------------------------------------------------------------------------------
// L0: HugeEntry (u16: free counter, or 0xFFFF = allocated as a whole huge frame)
// ---------------------------------------------------------------------------------------------
pub(crate) fn entry_wf(e: HugeEntry) -> bool {
    e.huge() || e.count() as usize <= LEN
}
#[kani::proof]
fn l0_huge_entry() {
    let e = HugeEntry::from_bits(kani::any());
    kani::assume(entry_wf(e));
    let n: usize = kani::any();
    kani::assume(n >= 1 && n <= LEN);
    clause!(HugeEntry::new_huge().huge() && HugeEntry::new_huge().free() == 0, "new_huge: marker set, nothing free");
    let f: usize = kani::any();
    kani::assume(f <= LEN);
    clause!(!HugeEntry::new_with(f).huge() && HugeEntry::new_with(f).free() == f, "new_with stores the counter");
    let d = e.dec(n);
    clause!(d.is_some() == (!e.huge() && e.free() >= n), "dec succeeds iff not huge and counter >= n");
    if let Some(d) = d {
        clause!(!d.huge() && d.free() == e.free() - n, "dec subtracts exactly n");
    }
    let i = e.inc(n);
    clause!(i.is_some() == (!e.huge() && e.free() + n <= LEN), "inc succeeds iff not huge and counter + n <= LEN");
    if let Some(i) = i {
        clause!(!i.huge() && i.free() == e.free() + n, "inc adds exactly n");
    }
}

/// `Metadata::new` / `Lower::metadata_size` (C18): sizes cover the slices `Lower::new` carves.
#[kani::proof]
fn l0_lower_metadata() {
    let frames: usize = kani::any();
    kani::assume(frames <= (1usize << 44));
    let m = Metadata::new(frames);
    clause!(m.bitfield_len * LEN >= frames && (m.bitfield_len == 0 || (m.bitfield_len - 1) * LEN < frames), "bitfield_len = ceil(frames / LEN)");
    clause!(m.table_len * TREE_FRAMES >= frames && (m.table_len == 0 || (m.table_len - 1) * TREE_FRAMES < frames), "table_len = ceil(frames / TREE_FRAMES)");
    clause!(m.bitfield_size == m.bitfield_len * core::mem::size_of::<Align<Bitfield>>(), "C18: bitfield bytes cover bitfield_len cache-aligned bitfields");
    clause!(m.table_size == m.table_len * core::mem::size_of::<Align<[Atom<HugeEntry>; TREE_HUGE]>>(), "C18: table bytes cover table_len cache-aligned tables");
    clause!(m.bitfield_size % 64 == 0, "C18: the table array starts cache aligned behind the bitfields");
    clause!(Lower::metadata_size(frames) == m.bitfield_size + m.table_size, "metadata_size is the sum of both parts");
}

// ---------------------------------------------------------------------------------------------
// L1b: symbolic lower allocator state.
//   NT trees (1, or 2 with feature verif_nt2), all entirely inside the managed range.
//   Ghost: z[h] = number of zero bits of bitfield h, kept OPAQUE (never computed): only the lemma
//   instances Z1-Z3 (proved by bitfield::l1a_zeros_lemmas_*) are given to the solver.
// ---------------------------------------------------------------------------------------------
pub(crate) const NT: usize = if cfg!(feature = "verif_nt2") { 2 } else { 1 };
pub(crate) const NBF: usize = NT * TREE_HUGE;

pub(crate) struct LState {
    pub bfs: [Align<Bitfield>; NBF],
    pub ch: [Align<[Atom<HugeEntry>; TREE_HUGE]>; NT],
}
#[derive(Clone, Copy)]
pub(crate) struct LSnap {
    pub rows: [Rows; NBF],
    pub ent: [u16; NBF],
    /// ghost zeros per bitfield
    pub z: [usize; NBF],
}

impl LState {
    pub fn from(rows: &[Rows; NBF], ent: &[u16; NBF]) -> Self {
        let s = LState {
            bfs: core::array::from_fn(|_| Align(Bitfield::default())),
            ch: core::array::from_fn(|_| Align(core::array::from_fn(|_| Atom::new(HugeEntry::new())))),
        };
        let mut h = 0;
        while h < NBF {
            for_rows!(r, {
                crate::bitfield::verif_contracts::set_row_raw(&s.bfs[h], r, rows[h][r]);
            });
            s.ch[h / TREE_HUGE][h % TREE_HUGE].store(HugeEntry::from_bits(ent[h]));
            h += 1;
        }
        s
    }
    /// The lower allocator over this state, shaped exactly as `Lower::new` shapes it for `frames`:
    /// ceil(frames/LEN) bitfields and ceil(frames/TREE_FRAMES) tables.
    pub fn lower(&self, frames: usize) -> Lower<'_> {
        Lower { len: frames, bitfields: &self.bfs[..frames.div_ceil(LEN)], children: &self.ch[..frames.div_ceil(TREE_FRAMES)] }
    }
    /// Same, with the slice shapes given by the constant number of bitfields B (keeps slice lengths
    /// concrete for CBMC when `frames` is symbolic inside the range of B).
    pub fn lower_shaped<const B: usize>(&self, frames: usize) -> Lower<'_> {
        Lower { len: frames, bitfields: &self.bfs[..B], children: &self.ch[..B.div_ceil(TREE_HUGE)] }
    }
    pub fn snap(&self, z: [usize; NBF]) -> LSnap {
        let mut rows = [[0u64; ROWS]; NBF];
        let mut ent = [0u16; NBF];
        let mut h = 0;
        while h < NBF {
            rows[h] = rows_of(&self.bfs[h]);
            ent[h] = self.ch[h / TREE_HUGE][h % TREE_HUGE].load().into_bits();
            h += 1;
        }
        LSnap { rows, ent, z }
    }
}

fn all_rows(rows: &Rows, v: u64) -> bool {
    let mut ok = true;
    for_rows!(r, {
        if rows[r] != v {
            ok = false;
        }
    });
    ok
}
pub(crate) fn ent_huge(e: u16) -> bool {
    e == u16::MAX
}

/// Facts about the opaque ghost `z` that hold for every bitfield (lemma Z2, range of popcount).
fn ghost_zeros_facts(s: &LSnap) -> bool {
    let mut ok = true;
    let mut h = 0;
    while h < NBF {
        let z = s.z[h];
        if z > LEN || (z == LEN) != all_rows(&s.rows[h], 0) || (z == 0) != all_rows(&s.rows[h], u64::MAX) {
            ok = false;
        }
        h += 1;
    }
    ok
}
/// Lemma Z3 instantiated for one block.
fn ghost_zeros_block_fact(s: &LSnap, h: usize, b: &Blk, order: usize) -> bool {
    let n = 1usize << order;
    (!blk_all(&s.rows[h], b, true) || s.z[h] + n <= LEN) && (!blk_all(&s.rows[h], b, false) || s.z[h] >= n)
}

/// Representation invariant of the lower allocator (all trees fully managed):
///   marker set  => bitfield all zero;   marker clear => counter == zeros(bitfield) <= LEN.
pub(crate) fn wf_lower(s: &LSnap) -> bool {
    let mut ok = true;
    let mut h = 0;
    while h < NBF {
        if ent_huge(s.ent[h]) {
            if !all_rows(&s.rows[h], 0) {
                ok = false;
            }
        } else if s.ent[h] as usize > LEN || s.ent[h] as usize != s.z[h] {
            ok = false;
        }
        h += 1;
    }
    ok
}
/// Abstract view: frame `f` is allocated.
pub(crate) fn alloc(s: &LSnap, f: usize) -> bool {
    let h = f / LEN;
    ent_huge(s.ent[h]) || (s.rows[h][(f % LEN) / 64] >> (f % 64)) & 1 == 1
}
/// Abstract view: every frame of the aligned block is free.
pub(crate) fn block_free(s: &LSnap, f: usize, order: usize) -> bool {
    block_free_b(s, f, order, &blk(f % LEN, order))
}
pub(crate) fn block_free_b(s: &LSnap, f: usize, order: usize, b: &Blk) -> bool {
    if order >= HUGE_ORDER {
        let mut ok = true;
        let mut k = 0;
        while k < (1usize << (order - HUGE_ORDER)) {
            let h = f / LEN + k;
            // entirely free huge frame: counter LEN (then, by wf + Z2, the bitfield is all zero)
            if s.ent[h] as usize != LEN {
                ok = false;
            }
            k += 1;
        }
        ok
    } else {
        let h = f / LEN;
        !ent_huge(s.ent[h]) && blk_all(&s.rows[h], b, false)
    }
}
/// Abstract view: every frame of the block is allocated (and, for orders >= huge order, every
/// covered huge frame is allocated as a whole).
pub(crate) fn block_allocated(s: &LSnap, f: usize, order: usize) -> bool {
    block_allocated_b(s, f, order, &blk(f % LEN, order))
}
pub(crate) fn block_allocated_b(s: &LSnap, f: usize, order: usize, b: &Blk) -> bool {
    if order >= HUGE_ORDER {
        let mut ok = true;
        let mut k = 0;
        while k < (1usize << (order - HUGE_ORDER)) {
            if !ent_huge(s.ent[f / LEN + k]) {
                ok = false;
            }
            k += 1;
        }
        ok
    } else {
        let h = f / LEN;
        ent_huge(s.ent[h]) || blk_all(&s.rows[h], b, true)
    }
}

fn any_state() -> (LState, LSnap) {
    let rows: [Rows; NBF] = core::array::from_fn(|_| any_rows());
    let ent: [u16; NBF] = kani::any();
    let z: [usize; NBF] = kani::any();
    let st = LState::from(&rows, &ent);
    let snap = LSnap { rows, ent, z };
    kani::assume(ghost_zeros_facts(&snap));
    kani::assume(wf_lower(&snap));
    (st, snap)
}

/// Everything outside huge frames [h0, h0+k) is unchanged.
fn frame_others(old: &LSnap, new: &LSnap, h0: usize, k: usize) -> bool {
    let mut ok = true;
    let mut h = 0;
    while h < NBF {
        if h < h0 || h >= h0 + k {
            if old.ent[h] != new.ent[h] || !rows_eq(&old.rows[h], &new.rows[h]) {
                ok = false;
            }
        }
        h += 1;
    }
    ok
}
fn unchanged(old: &LSnap, new: &LSnap) -> bool {
    frame_others(old, new, 0, 0)
}

/// Ghost update (lemma Z1 / Z2): the zeros of bitfield `h` after it changed from `old` to `new`,
/// where the only block the call may touch is (bit, order). `None` = a change no contract describes.
fn ghost_zeros_after(old: &LSnap, new_rows: &Rows, h: usize, b: &Blk, order: usize) -> Option<usize> {
    let n = 1usize << order;
    let o = &old.rows[h];
    if rows_eq(o, new_rows) {
        Some(old.z[h])
    } else if blk_all(o, b, false) && rows_with_blk(o, new_rows, b, true) {
        Some(old.z[h] - n)
    } else if blk_all(o, b, true) && rows_with_blk(o, new_rows, b, false) {
        Some(old.z[h] + n)
    } else if all_rows(o, 0) && {
        // split: everything set except the freed block
        let ones: Rows = [u64::MAX; ROWS];
        rows_with_blk(&ones, new_rows, b, false)
    } {
        Some(n)
    } else {
        None
    }
}

/// Re-establish the snapshot after a call that may have touched the block (f, order) only.
fn snap_after(st: &LState, old: &LSnap, f: usize, order: usize, b: &Blk) -> LSnap {
    let mut new = st.snap(old.z);
    if order < HUGE_ORDER {
        let h = f / LEN;
        match ghost_zeros_after(old, &new.rows[h], h, b, order) {
            Some(z) => new.z[h] = z,
            None => clause!(false, "the call changed a bitfield in a way its contract does not describe"),
        }
    }
    new
}

fn any_block<const ORDER: usize>() -> usize {
    let f: usize = kani::any();
    kani::assume(f < NT * TREE_FRAMES && f % (1usize << ORDER) == 0 && f + (1usize << ORDER) <= NT * TREE_FRAMES);
    f
}
/// A symbolic aligned block whose first frame lies in huge frame `H` (the huge index is a harness
/// constant: the case split over H keeps every pointer into the metadata arrays concrete).
fn any_block_in<const ORDER: usize, const H: usize>() -> usize {
    if ORDER >= HUGE_ORDER {
        kani::assume(H % (1usize << (ORDER - HUGE_ORDER)) == 0);
        H * LEN
    } else {
        let off: usize = kani::any();
        kani::assume(off < LEN && off % (1usize << ORDER) == 0);
        H * LEN + off
    }
}

// ---------------------------------------------------------------------------------------------
// Lower::put  (C02 free clause, C01/C05 frame conditions)
// ---------------------------------------------------------------------------------------------
fn check_put<const ORDER: usize, const H: usize>() {
    let (st, old) = any_state();
    let lower = st.lower(NT * TREE_FRAMES);
    let f = any_block_in::<ORDER, H>();
    let h = H;
    let b = blk(f % LEN, ORDER);
    if ORDER < HUGE_ORDER {
        kani::assume(ghost_zeros_block_fact(&old, h, &b, ORDER));
    }
    let r = lower.put(FrameId(f), ORDER);
    let new = snap_after(&st, &old, f, ORDER, &b);
    vcover!(r.is_ok(), "put ok");
    vcover!(r.is_err(), "put err");
    clause!(r.is_ok() == block_allocated_b(&old, f, ORDER, &b), "C02: free succeeds exactly when every frame of the block is allocated (huge orders: allocated whole)");
    clause!(wf_lower(&new), "put preserves the lower invariant (counter == zeros, marker => empty bitfield)");
    if r.is_ok() {
        clause!(block_free_b(&new, f, ORDER, &b), "C02: a successful free frees exactly the block");
        if ORDER < HUGE_ORDER {
            clause!(frame_others(&old, &new, h, 1), "C02: free leaves every other huge frame unchanged");
            if ent_huge(old.ent[h]) {
                // split of a whole-allocated huge frame
                let ones: Rows = [u64::MAX; ROWS];
                clause!(!ent_huge(new.ent[h]) && new.ent[h] as usize == (1usize << ORDER), "C02: partial free of a whole huge frame splits it (counter = freed frames)");
                clause!(rows_with_blk(&ones, &new.rows[h], &b, false), "C02: after a split every other frame of the huge frame stays allocated");
            } else {
                clause!(rows_with_blk(&old.rows[h], &new.rows[h], &b, false), "C02: free clears exactly the block's bits");
                clause!(new.ent[h] as usize == old.ent[h] as usize + (1usize << ORDER), "C02: counter grows by exactly the freed frames");
            }
        } else {
            clause!(frame_others(&old, &new, h, 1usize << (ORDER - HUGE_ORDER)), "C02: huge free leaves every other huge frame unchanged");
        }
    } else {
        clause!(unchanged(&old, &new), "C02: a failing free changes nothing");
    }
}

// ---------------------------------------------------------------------------------------------
// Lower::get_at (targeted) and Lower::get (search) — C02 allocation clause, C12
// ---------------------------------------------------------------------------------------------
fn check_get_at<const ORDER: usize, const H: usize>() {
    let (st, old) = any_state();
    let lower = st.lower(NT * TREE_FRAMES);
    let f = any_block_in::<ORDER, H>();
    let h = H;
    let b = blk(f % LEN, ORDER);
    if ORDER < HUGE_ORDER {
        kani::assume(ghost_zeros_block_fact(&old, h, &b, ORDER));
    }
    let start: usize = kani::any();
    kani::assume(start < NT * TREE_FRAMES / 64);
    let r = lower.get(RowId(start), ORDER, Some(FrameId(f)));
    let new = snap_after(&st, &old, f, ORDER, &b);
    vcover!(r.is_ok(), "get_at ok");
    vcover!(r.is_err(), "get_at err");
    clause!(r.is_ok() == block_free_b(&old, f, ORDER, &b), "C02/C10: a targeted allocation succeeds exactly when the whole block is free");
    clause!(wf_lower(&new), "get_at preserves the lower invariant");
    match r {
        Ok(g) => {
            clause!(g.0 == f, "C02: a targeted allocation returns exactly the requested frame");
            clause!(block_allocated_b(&new, f, ORDER, &b), "C02: the block becomes allocated");
            let k = if ORDER < HUGE_ORDER { 1 } else { 1usize << (ORDER - HUGE_ORDER) };
            clause!(frame_others(&old, &new, h, k), "C02: allocation leaves every other huge frame unchanged");
            if ORDER < HUGE_ORDER {
                clause!(rows_with_blk(&old.rows[h], &new.rows[h], &b, true), "C02: allocation sets exactly the block's bits");
                clause!(new.ent[h] as usize + (1usize << ORDER) == old.ent[h] as usize, "C02: counter shrinks by exactly the allocated frames");
            }
        }
        Err(_) => clause!(unchanged(&old, &new), "C02: a failing allocation changes nothing"),
    }
}

fn check_get<const ORDER: usize, const H: usize>() {
    let (st, old) = any_state();
    let lower = st.lower(NT * TREE_FRAMES);
    // the row hint: any row of huge frame H
    let start_row: usize = kani::any();
    kani::assume(start_row < ROWS);
    let start = H * ROWS + start_row;
    let tree = H / TREE_HUGE;
    // universally quantified witness block inside the searched tree
    let p = any_block::<ORDER>();
    kani::assume(p / TREE_FRAMES == tree);
    let pb = blk(p % LEN, ORDER);
    if ORDER < HUGE_ORDER {
        kani::assume(ghost_zeros_block_fact(&old, p / LEN, &pb, ORDER));
        unsafe { crate::bitfield::verif_contracts::SFZ_WITNESS = (&st.bfs[p / LEN].0 as *const Bitfield as usize, p % LEN) };
    }
    let r = lower.get(RowId(start), ORDER, None);
    vcover!(r.is_ok(), "get ok");
    vcover!(r.is_err(), "get err");
    match r {
        Ok(g) => {
            let f = g.0;
            clause!(f % (1usize << ORDER) == 0 && f + (1usize << ORDER) <= NT * TREE_FRAMES, "C01: block aligned and inside the managed range");
            clause!(f / TREE_FRAMES == tree, "C12: directed allocation stays inside the tree of the hint");
            let b = blk(f % LEN, ORDER);
            if ORDER < HUGE_ORDER {
                kani::assume(ghost_zeros_block_fact(&old, f / LEN, &b, ORDER));
            }
            let new = snap_after(&st, &old, f, ORDER, &b);
            clause!(block_free_b(&old, f, ORDER, &b), "C02: an allocation succeeds only with a block that was entirely free");
            clause!(block_allocated_b(&new, f, ORDER, &b), "C02: the block becomes allocated");
            clause!(wf_lower(&new), "get preserves the lower invariant");
            let k = if ORDER < HUGE_ORDER { 1 } else { 1usize << (ORDER - HUGE_ORDER) };
            clause!(frame_others(&old, &new, f / LEN, k), "C12: success marks exactly that block (other huge frames unchanged)");
            if ORDER < HUGE_ORDER {
                clause!(rows_with_blk(&old.rows[f / LEN], &new.rows[f / LEN], &b, true), "C12: success marks exactly that block");
                clause!(new.ent[f / LEN] as usize + (1usize << ORDER) == old.ent[f / LEN] as usize, "counter shrinks by exactly the allocated frames");
            }
        }
        Err(_) => {
            let new = st.snap(old.z);
            clause!(unchanged(&old, &new), "C02: a failing allocation changes nothing");
            clause!(!block_free_b(&old, p, ORDER, &pb), "C12: search fails although the tree holds an aligned entirely free block");
        }
    }
}

macro_rules! lower_harness {
    ($f:ident, $o:expr, $($name:ident: $h:expr),+) => {
        $(
        #[kani::proof]
        #[cfg_attr(any(feature = "verif_nt2", feature = "tree_huge_8", feature = "16K"), kani::unwind(10))]
        #[cfg_attr(not(any(feature = "verif_nt2", feature = "tree_huge_8", feature = "16K")), kani::unwind(6))]
        #[kani::solver(kissat)]
        #[kani::stub(crate::atomic::Atom::try_update, crate::atomic::Atom::try_update_seq)]
        #[kani::stub(crate::atomic::Atom::update, crate::atomic::Atom::update_seq)]
        #[kani::stub(crate::bitfield::Bitfield::toggle, crate::bitfield::Bitfield::toggle_contract)]
        #[kani::stub(crate::bitfield::Bitfield::set_first_zeros, crate::bitfield::Bitfield::set_first_zeros_contract)]
        fn $name() {
            $f::<$o, $h>();
        }
        )+
    };
}
include!("_lower_harnesses.rs");

// ---------------------------------------------------------------------------------------------
// Partial last tree: representation invariant for an arbitrary managed frame count.
//   bitfield h exists iff h*LEN < frames; bits at or beyond `frames` are set; table entries whose
//   bitfield does not exist carry counter 0.
// ---------------------------------------------------------------------------------------------
fn prefix_rows(k: usize) -> Rows {
    // bits [0,k) zero, bits [k,LEN) one
    let mut r = [0u64; ROWS];
    for_rows!(i, {
        let lo = i * 64;
        r[i] = if k >= lo + 64 { 0 } else if k <= lo { u64::MAX } else { u64::MAX << (k - lo) };
    });
    r
}
/// Bits at or beyond the managed range are set in bitfield `h`.
fn tail_set(rows: &Rows, h: usize, frames: usize) -> bool {
    let k = if frames >= (h + 1) * LEN { LEN } else if frames <= h * LEN { 0 } else { frames - h * LEN };
    let t = prefix_rows(k);
    let mut ok = true;
    for_rows!(i, {
        if rows[i] & t[i] != t[i] {
            ok = false;
        }
    });
    ok
}
pub(crate) fn wf_lower_frames(s: &LSnap, frames: usize) -> bool {
    let mut ok = true;
    let nbf = frames.div_ceil(LEN);
    let ntab = frames.div_ceil(TREE_FRAMES);
    let mut h = 0;
    while h < NBF {
        if h < nbf {
            if ent_huge(s.ent[h]) {
                if !all_rows(&s.rows[h], 0) || frames < (h + 1) * LEN {
                    ok = false;
                }
            } else if s.ent[h] as usize > LEN || s.ent[h] as usize != s.z[h] {
                ok = false;
            }
            if !tail_set(&s.rows[h], h, frames) {
                ok = false;
            }
        } else if h < ntab * TREE_HUGE && s.ent[h] != 0 {
            ok = false;
        }
        h += 1;
    }
    ok
}

// ---------------------------------------------------------------------------------------------
// C06: Lower::free_all / Lower::reserve_all for EVERY frame count 1..=NT*TREE_FRAMES
// ---------------------------------------------------------------------------------------------
/// Frame count with exactly B bitfields: frames in ((B-1)*LEN, B*LEN]. One obligation per B keeps
/// every slice length concrete; together the obligations cover every frame count 1..=NT*TREE_FRAMES.
fn any_frames_with<const B: usize>() -> usize {
    let k: usize = kani::any();
    kani::assume(k >= 1 && k <= LEN);
    (B - 1) * LEN + k
}
fn any_raw_state() -> (LState, [Rows; NBF], [u16; NBF]) {
    let rows: [Rows; NBF] = core::array::from_fn(|_| any_rows());
    let ent: [u16; NBF] = kani::any();
    (LState::from(&rows, &ent), rows, ent)
}

/// Install the ghost rows for the `fill`/`set` contract stubs.
fn ghost_rows_install(st: &LState, rows0: &[Rows; NBF]) {
    use crate::bitfield::verif_contracts::{G_BASE, G_ROWS, G_STRIDE};
    unsafe {
        G_BASE = &st.bfs[0] as *const Align<Bitfield> as usize;
        G_STRIDE = core::mem::size_of::<Align<Bitfield>>();
        let mut h = 0;
        while h < NBF {
            G_ROWS[h] = rows0[h];
            h += 1;
        }
    }
}
fn ghost_rows(h: usize) -> Rows {
    unsafe { crate::bitfield::verif_contracts::G_ROWS[h] }
}

/// C06 free-all for every frame count with B bitfields (symbolic count inside the range).
fn c06_free_all<const B: usize>() {
    let (st, rows0, ent0) = any_raw_state();
    ghost_rows_install(&st, &rows0);
    let frames = any_frames_with::<B>();
    let lower = st.lower_shaped::<B>(frames);
    lower.free_all();
    let new = st.snap([0; NBF]);
    let nbf = B;
    let ntab = B.div_ceil(TREE_HUGE);
    let h: usize = kani::any();
    kani::assume(h < NBF);
    vcover!(frames % LEN != 0 && h == nbf - 1, "partial last bitfield");
    vcover!(frames % LEN == 0, "whole huge frames");
    clause!(rows_eq(&new.rows[h], &rows0[h]), "free-all reaches bitfields only through fill/set (ghost stubs)");
    if h < nbf {
        let k = if frames >= (h + 1) * LEN { LEN } else { frames - h * LEN };
        clause!(rows_eq(&ghost_rows(h), &prefix_rows(k)), "C06 free-all: exactly the managed frames are free, every bit at or beyond the frame count is set");
        clause!(new.ent[h] as usize == k, "C06 free-all: counter equals the number of managed frames of the huge frame");
    } else {
        clause!(rows_eq(&ghost_rows(h), &rows0[h]), "C06/C18 free-all writes no bitfield outside the metadata of this frame count");
        if h < ntab * TREE_HUGE {
            clause!(new.ent[h] == 0, "C06 free-all: table entries beyond the last bitfield carry counter 0");
        } else {
            clause!(new.ent[h] == ent0[h], "C06/C18 free-all writes no table outside the metadata of this frame count");
        }
    }
}

fn c06_reserve_all<const B: usize>() {
    let (st, rows0, ent0) = any_raw_state();
    ghost_rows_install(&st, &rows0);
    let frames = any_frames_with::<B>();
    let lower = st.lower_shaped::<B>(frames);
    lower.reserve_all();
    let new = st.snap([0; NBF]);
    let nbf = B;
    let ntab = B.div_ceil(TREE_HUGE);
    let h: usize = kani::any();
    kani::assume(h < NBF);
    vcover!(frames % LEN != 0 && h == nbf - 1, "partial last bitfield");
    clause!(rows_eq(&new.rows[h], &rows0[h]), "allocate-all reaches bitfields only through fill (ghost stubs)");
    if h < frames / LEN {
        clause!(ent_huge(new.ent[h]) && all_rows(&ghost_rows(h), 0), "C06 allocate-all: every whole huge frame is allocated as a whole (marker set, bitfield empty)");
    } else if h < nbf {
        clause!(new.ent[h] == 0 && all_rows(&ghost_rows(h), u64::MAX), "C06 allocate-all: the partial last huge frame is allocated frame by frame (counter 0, all bits set)");
    } else {
        clause!(rows_eq(&ghost_rows(h), &rows0[h]), "C06/C18 allocate-all writes no bitfield outside the metadata of this frame count");
        if h < ntab * TREE_HUGE {
            clause!(new.ent[h] == 0, "C06 allocate-all: table entries beyond the last bitfield carry counter 0");
        } else {
            clause!(new.ent[h] == ent0[h], "C06/C18 allocate-all writes no table outside the metadata of this frame count");
        }
    }
}

/// C09: frame count 0 (no tables, no bitfields) must not panic in any initialisation mode.
#[kani::proof]
#[kani::unwind(10)]
fn c09_init_zero_frames() {
    let (st, _, _) = any_raw_state();
    let lower = st.lower(0);
    let k: u8 = kani::any();
    match k % 3 {
        0 => lower.free_all(),
        1 => lower.reserve_all(),
        _ => lower.recover(),
    }
    clause!(lower.stats().free_frames == 0, "C06: an allocator over zero frames reports nothing free");
}

// ---------------------------------------------------------------------------------------------
// C05: Lower::recover from ANY persistent state (no invariant assumed), every frame count.
//   count_zeros is used through its contract: it returns the (opaque) ghost zeros of the bitfield.
// ---------------------------------------------------------------------------------------------
pub(crate) static mut GHOST_Z: [usize; NBF] = [0; NBF];
pub(crate) static mut GHOST_BF0: usize = 0; // address of bitfield 0
impl Bitfield {
    /// Contract stub of `count_zeros` (checked by bitfield::l1a_fill_count_zeros: it is the popcount).
    pub(crate) fn count_zeros_contract(&self) -> usize {
        let idx = (self as *const Self as usize - unsafe { GHOST_BF0 }) / core::mem::size_of::<Align<Bitfield>>();
        unsafe { GHOST_Z[idx] }
    }
}
/// Effective allocation status used by C05 (`eff`): marker or bit.
fn eff_same_everywhere(old: &LSnap, new: &LSnap, nbf: usize) -> bool {
    let mut ok = true;
    let mut h = 0;
    while h < NBF {
        if h < nbf {
            let ho = ent_huge(old.ent[h]);
            let hn = ent_huge(new.ent[h]);
            if ho != hn {
                ok = false;
            }
            if !ho && !rows_eq(&old.rows[h], &new.rows[h]) {
                ok = false;
            }
        }
        h += 1;
    }
    ok
}
fn c05_recover_any_state<const B: usize>() {
    let (st, rows, ent) = any_raw_state();
    let z: [usize; NBF] = kani::any();
    let old = LSnap { rows, ent, z };
    kani::assume(ghost_zeros_facts(&old));
    unsafe {
        GHOST_Z = z;
        GHOST_BF0 = &st.bfs[0] as *const Align<Bitfield> as usize;
    }
    let frames = any_frames_with::<B>();
    let nbf = frames.div_ceil(LEN);
    // the only part of the invariant that is not recomputed by recovery: bits beyond the range are set
    // and a whole-allocated huge frame lies entirely inside the range (initialisation establishes both
    // and no operation writes there)
    let mut h = 0;
    while h < NBF {
        if h < nbf {
            kani::assume(tail_set(&old.rows[h], h, frames));
            kani::assume(!ent_huge(old.ent[h]) || frames >= (h + 1) * LEN);
        } else if h < frames.div_ceil(TREE_FRAMES) * TREE_HUGE {
            kani::assume(old.ent[h] == 0);
        }
        h += 1;
    }
    let lower = st.lower_shaped::<B>(frames);
    lower.recover();
    let mut new = st.snap(z);
    // ghost: a bitfield cleared by recovery has LEN zeros (Z2); untouched bitfields keep theirs
    let mut h = 0;
    while h < NBF {
        if !rows_eq(&old.rows[h], &new.rows[h]) {
            clause!(all_rows(&new.rows[h], 0), "C05: recovery changes a bitfield only by clearing it");
            new.z[h] = LEN;
        }
        h += 1;
    }
    vcover!(frames % LEN != 0, "partial last huge frame");
    clause!(eff_same_everywhere(&old, &new, nbf), "C05: recovery keeps the allocation status of every frame (marker or bit)");
    clause!(wf_lower_frames(&new, frames), "C05: recovery establishes the lower invariant (counter == zeros, marker => empty bitfield)");
}

macro_rules! recover_harness {
    ($f:ident, $($name:ident: $b:expr),+) => {
        $(
        #[kani::proof]
        #[kani::unwind(10)]
        #[kani::solver(kissat)]
        #[kani::stub(crate::bitfield::Bitfield::count_zeros, crate::bitfield::Bitfield::count_zeros_contract)]
        fn $name() {
            $f::<$b>();
        }
        )+
    };
}
macro_rules! init_harness {
    ($f:ident, $($name:ident: $b:expr),+) => {
        $(
        #[kani::proof]
        #[kani::unwind(10)]
        #[kani::solver(kissat)]
        #[kani::stub(crate::bitfield::Bitfield::count_zeros, crate::bitfield::Bitfield::count_zeros_contract)]
        #[kani::stub(crate::bitfield::Bitfield::fill, crate::bitfield::Bitfield::fill_contract)]
        #[kani::stub(crate::bitfield::Bitfield::set, crate::bitfield::Bitfield::set_contract)]
        fn $name() {
            $f::<$b>();
        }
        )+
    };
}
include!("_lower_init_harnesses.rs");



// ---------------------------------------------------------------------------------------------
// Abstract lower allocator for the allocator-level (L2) obligations.
// The L2 contracts see the lower allocator only through the contracts of its public functions,
// over this ghost view: LF[t] = number of free frames of tree t; one designated target block
// (TGT) with its ghost status; the outcome of the one free under test (PUT_OK).
//   Lower::get(start, k, None)   : Ok only if LF[t] >= 2^k; for k == 0 (and for an entirely free
//                                  tree at any k) Ok exactly when frames are free (C12 contract);
//                                  Ok(f) => f aligned, inside tree t and the managed range, LF[t] -= 2^k
//   Lower::get(_, k, Some(f))    : Ok iff the target block is entirely free (C02 get_at contract)
//   Lower::put(f, k)             : Ok iff the block is allocated (PUT_OK), then LF[t] += 2^k
//   Lower::stats_at(f, TREE_ORDER).free_frames == LF[t];  Lower::stats().free_frames == sum LF
// ---------------------------------------------------------------------------------------------
pub(crate) mod ghost {
    pub const GT: usize = 3;
    pub static mut LF: [usize; GT] = [0; GT];
    pub static mut TGT_FRAME: usize = 0;
    pub static mut TGT_ORDER: usize = 0;
    pub static mut TGT_FREE: bool = false;
    pub static mut PUT_OK: bool = false;
    pub static mut NET_ALLOCS: usize = 0;
    pub static mut LAST_FRAME: usize = 0;
    pub static mut LAST_ORDER: usize = 0;
}
pub(crate) fn ghost_lower<'a>(frames: usize) -> Lower<'a> {
    Lower { len: frames, bitfields: &[], children: &[] }
}
impl<'a> Lower<'a> {
    pub(crate) fn get_contract(&self, start: RowId, order: usize, frame: Option<FrameId>) -> Result<FrameId> {
        use ghost::*;
        kani::assert(order <= TREE_ORDER, "Lower::get precondition: order <= TREE_ORDER");
        let n = 1usize << order;
        unsafe {
            match frame {
                Some(f) => {
                    kani::assert(f.0 % n == 0 && f.0 + n <= self.len, "Lower::get_at precondition: aligned block inside the managed range");
                    kani::assert(f.0 == TGT_FRAME && order == TGT_ORDER, "L2 harness: the only targeted block is the designated target");
                    let t = f.0 / TREE_FRAMES;
                    if TGT_FREE {
                        TGT_FREE = false;
                        LF[t] -= n;
                        NET_ALLOCS += 1;
                        LAST_FRAME = f.0;
                        LAST_ORDER = order;
                        Ok(f)
                    } else {
                        Err(Error::Memory)
                    }
                }
                None => {
                    kani::assert(start.0 * 64 < self.len, "Lower::get precondition: the row hint lies inside the managed range");
                    let t = start.0 * 64 / TREE_FRAMES;
                    let ok: bool = kani::any();
                    kani::assume(!ok || LF[t] >= n);
                    kani::assume(ok || !(order == 0 && LF[t] >= 1));
                    kani::assume(ok || LF[t] < TREE_FRAMES);
                    if ok {
                        let f: usize = kani::any();
                        kani::assume(f / TREE_FRAMES == t && f % n == 0 && f + n <= self.len);
                        LF[t] -= n;
                        NET_ALLOCS += 1;
                        LAST_FRAME = f;
                        LAST_ORDER = order;
                        Ok(FrameId(f))
                    } else {
                        Err(Error::Memory)
                    }
                }
            }
        }
    }
    pub(crate) fn put_contract(&self, frame: FrameId, order: usize) -> Result<()> {
        use ghost::*;
        kani::assert(order <= TREE_ORDER, "Lower::put precondition: order <= TREE_ORDER");
        let n = 1usize << order;
        kani::assert(frame.0 % n == 0 && frame.0 + n <= self.len, "Lower::put precondition: aligned block inside the managed range");
        unsafe {
            if PUT_OK {
                LF[frame.0 / TREE_FRAMES] += n;
                Ok(())
            } else {
                Err(Error::Memory)
            }
        }
    }
    pub(crate) fn stats_at_contract(&self, frame: FrameId, order: usize) -> Stats {
        kani::assert(order == TREE_ORDER && frame.0 < self.len, "L2 uses stats_at only per tree, for managed frames");
        let free = unsafe { ghost::LF[frame.0 / TREE_FRAMES] };
        Stats { free_frames: free, free_huge: kani::any(), free_trees: (free == TREE_FRAMES) as usize }
    }
    pub(crate) fn stats_contract(&self) -> Stats {
        let mut free = 0;
        let mut t = 0;
        while t < self.len.div_ceil(TREE_FRAMES) {
            free += unsafe { ghost::LF[t] };
            t += 1;
        }
        Stats { free_frames: free, free_huge: kani::any(), free_trees: kani::any() }
    }
}

// ---------------------------------------------------------------------------------------------
// C04: exact statistics and per-frame / per-huge-frame / per-tree queries agree with the view
// (every frame count shape of one full tree; zeros through the ghost z with lemma instances)
// ---------------------------------------------------------------------------------------------
fn view_free_in(s: &LSnap, h: usize) -> usize {
    if ent_huge(s.ent[h]) { 0 } else { s.z[h] }
}
fn check_stats() {
    let (st, old) = any_state();
    let lower = st.lower_shaped::<NBF>(NT * TREE_FRAMES);
    let s = lower.stats();
    let mut free = 0;
    let mut free_huge = 0;
    let mut free_trees = 0;
    let mut t = 0;
    while t < NT {
        let mut tf = 0;
        let mut j = 0;
        while j < TREE_HUGE {
            let f = view_free_in(&old, t * TREE_HUGE + j);
            tf += f;
            free_huge += (f == LEN) as usize;
            j += 1;
        }
        free += tf;
        free_trees += (tf == TREE_FRAMES) as usize;
        t += 1;
    }
    clause!(s.free_frames == free, "C04: the exact free-frame count equals the number of free frames");
    clause!(s.free_huge == free_huge, "C04: the count of entirely free huge frames agrees with the allocation state");
    clause!(s.free_trees == free_trees, "C04: the count of entirely free trees agrees with the allocation state");
    clause!(unchanged(&old, &st.snap(old.z)), "stats is read-only");
}
fn check_stats_at<const H: usize>() {
    let (st, old) = any_state();
    let lower = st.lower_shaped::<NBF>(NT * TREE_FRAMES);
    let off: usize = kani::any();
    kani::assume(off < LEN);
    let f = H * LEN + off;
    let b = blk(off, 0);
    kani::assume(ghost_zeros_block_fact(&old, H, &b, 0));
    let s0 = lower.stats_at(FrameId(f), 0);
    clause!(s0.free_frames == (!alloc(&old, f)) as usize, "C04: the per-frame query reports a frame free exactly when it is free");
    let s1 = lower.stats_at(FrameId(f), HUGE_ORDER);
    clause!(s1.free_frames == view_free_in(&old, H) && s1.free_huge == (view_free_in(&old, H) == LEN) as usize, "C04: the per-huge-frame query agrees with the allocation state");
    let s2 = lower.stats_at(FrameId(f), TREE_ORDER);
    let mut tf = 0;
    let mut th = 0;
    let mut j = 0;
    while j < TREE_HUGE {
        let x = view_free_in(&old, (H / TREE_HUGE) * TREE_HUGE + j);
        tf += x;
        th += (x == LEN) as usize;
        j += 1;
    }
    clause!(s2.free_frames == tf && s2.free_huge == th && s2.free_trees == (tf == TREE_FRAMES) as usize, "C04: the per-tree query agrees with the allocation state");
}
fn check_is_free<const ORDER: usize, const H: usize>() {
    let (st, old) = any_state();
    let lower = st.lower_shaped::<NBF>(NT * TREE_FRAMES);
    let f = any_block_in::<ORDER, H>();
    let b = blk(f % LEN, ORDER);
    if ORDER < HUGE_ORDER {
        kani::assume(ghost_zeros_block_fact(&old, H, &b, ORDER));
    }
    let r = lower.is_free(FrameId(f), ORDER);
    clause!(r == block_free_b(&old, f, ORDER, &b), "C04: is_free reports a block free exactly when every frame of it is free");
}
macro_rules! query_harness {
    ($name:ident, $body:expr) => {
        #[kani::proof]
        #[kani::unwind(10)]
        #[kani::solver(kissat)]
        fn $name() {
            $body
        }
    };
}
query_harness!(c04_lower_stats, check_stats());
query_harness!(c04_lower_stats_at_h1, check_stats_at::<1>());
query_harness!(c04_lower_is_free_o0_h1, check_is_free::<0, 1>());
query_harness!(c04_lower_is_free_o4_h2, check_is_free::<4, 2>());
query_harness!(c04_lower_is_free_o7_h0, check_is_free::<7, 0>());
query_harness!(c04_lower_is_free_o9_h3, check_is_free::<9, 3>());
query_harness!(c04_lower_is_free_o10_h2, check_is_free::<10, 2>());

// ---------------------------------------------------------------------------------------------
// C05 (crash points inside one call): the persistent state after ANY number K of this call's
// atomic writes (K symbolic) differs from the pre-call state, in terms of the effective allocation
// status eff(f) = marker(f's huge frame) || bit(f), only inside the block the call operates on.
// Together with c05_recover_* (recovery keeps eff and re-establishes wf_lower from any state):
// a block returned by a completed allocation and untouched since stays allocated, an untouched free
// frame stays free. The bitfield code runs with its REAL bodies here (its intermediate states are
// the crash points); only the std retry loop of try_update is by contract.
// ---------------------------------------------------------------------------------------------
pub(crate) mod crash {
    use super::*;
    pub static mut STATE: *const LState = core::ptr::null();
    pub static mut K: usize = 0;
    pub static mut WRITES: usize = 0;
    pub static mut TAKEN: bool = false;
    pub static mut SNAP_ROWS: [Rows; NBF] = [[0; ROWS]; NBF];
    pub static mut SNAP_ENT: [u16; NBF] = [0; NBF];
    /// called after every atomic write of the call under test
    pub fn after_write() {
        unsafe {
            WRITES += 1;
            if WRITES == K && !STATE.is_null() {
                let s = (*STATE).snap([0; NBF]);
                SNAP_ROWS = s.rows;
                SNAP_ENT = s.ent;
                TAKEN = true;
            }
        }
    }
}
impl<T: Atomic> Atom<T> {
    pub(crate) fn store_crash(&self, v: T) {
        self.0.store(v.into());
        crash::after_write();
    }
    pub(crate) fn compare_exchange_crash(&self, current: T, new: T) -> core::result::Result<T, T> {
        match self.0.compare_exchange(current.into(), new.into()) {
            Ok(v) => {
                crash::after_write();
                Ok(v.into())
            }
            Err(v) => Err(v.into()),
        }
    }
    pub(crate) fn try_update_crash<F: FnMut(T) -> Option<T>>(&self, mut f: F) -> core::result::Result<T, T> {
        let old = self.0.load();
        match f(old.into()) {
            Some(new) => {
                self.0.store(new.into());
                crash::after_write();
                Ok(old.into())
            }
            None => Err(old.into()),
        }
    }
}
fn eff(rows: &[Rows; NBF], ent: &[u16; NBF], f: usize) -> bool {
    let h = f / LEN;
    ent_huge(ent[h]) || (rows[h][(f % LEN) / 64] >> (f % 64)) & 1 == 1
}
/// op: 0 = put, 1 = get_at, 2 = get (search)
fn check_crash<const ORDER: usize, const H: usize>(op: u8) {
    let (st, old) = any_state();
    let lower = st.lower_shaped::<NBF>(NT * TREE_FRAMES);
    let f = any_block_in::<ORDER, H>();
    let b = blk(f % LEN, ORDER);
    if ORDER < HUGE_ORDER {
        kani::assume(ghost_zeros_block_fact(&old, H, &b, ORDER));
    }
    unsafe {
        crash::STATE = &st as *const LState;
        crash::K = kani::any();
        crash::WRITES = 0;
        crash::TAKEN = false;
    }
    kani::assume(unsafe { crash::K } >= 1);
    // the block the call operates on
    let (blk_first, blk_len) = match op {
        0 => {
            let _ = lower.put(FrameId(f), ORDER);
            (f, 1usize << ORDER)
        }
        1 => {
            let _ = lower.get(RowId(0), ORDER, Some(FrameId(f)));
            (f, 1usize << ORDER)
        }
        _ => {
            let start_row: usize = kani::any();
            kani::assume(start_row < ROWS);
            match lower.get(RowId(H * ROWS + start_row), ORDER, None) {
                Ok(g) => (g.0, 1usize << ORDER),
                // a failing search may have tried (and rolled back) blocks anywhere in the tree: during the
                // call those are "touched by an in-flight call"; a completed failing call left nothing
                // (l1b_get_*). Here: the whole tree counts as touched.
                Err(_) => ((H / TREE_HUGE) * TREE_FRAMES, TREE_FRAMES),
            }
        }
    };
    vcover!(unsafe { crash::TAKEN }, "a crash point inside the call is reached");
    if unsafe { crash::TAKEN } {
        let (srows, sent) = unsafe { (crash::SNAP_ROWS, crash::SNAP_ENT) };
        let w: usize = kani::any();
        kani::assume(w < NT * TREE_FRAMES && (w < blk_first || w >= blk_first + blk_len));
        clause!(eff(&srows, &sent, w) == eff(&old.rows, &old.ent, w), "C05: at every crash point of the call, every frame outside the call's block keeps its allocation status");
    }
}
macro_rules! crash_harness {
    ($op:expr, $($name:ident: ($o:expr, $h:expr)),+) => {
        $(
        #[kani::proof]
        #[kani::unwind(10)]
        #[kani::solver(kissat)]
        #[kani::stub(crate::atomic::Atom::try_update, crate::atomic::Atom::try_update_crash)]
        #[kani::stub(crate::atomic::Atom::store, crate::atomic::Atom::store_crash)]
        #[kani::stub(crate::atomic::Atom::compare_exchange, crate::atomic::Atom::compare_exchange_crash)]
        fn $name() {
            check_crash::<$o, $h>($op);
        }
        )+
    };
}
crash_harness!(0, c05_crash_put_o0_h1: (0, 1), c05_crash_put_o3_h1: (3, 1), c05_crash_put_o6_h1: (6, 1), c05_crash_put_o7_h1: (7, 1), c05_crash_put_o8_h1: (8, 1), c05_crash_put_o9_h1: (9, 1), c05_crash_put_o10_h2: (10, 2));
crash_harness!(1, c05_crash_get_at_o0_h1: (0, 1), c05_crash_get_at_o4_h1: (4, 1), c05_crash_get_at_o7_h1: (7, 1), c05_crash_get_at_o8_h1: (8, 1), c05_crash_get_at_o9_h1: (9, 1), c05_crash_get_at_o10_h2: (10, 2));
crash_harness!(2, c05_crash_get_o0_h1: (0, 1), c05_crash_get_o7_h1: (7, 1), c05_crash_get_o9_h1: (9, 1));

impl<'a> Lower<'a> {
    /// Contract stub of `Lower::new` for the allocator-level construction obligation: the lower
    /// allocator is whatever c06_* / c05_recover_* establish; the allocator level only sees `LF`.
    pub(crate) fn new_contract(frames: usize, _init: Init, primary: &'a mut [u8]) -> Result<Self> {
        kani::assert(primary.len() >= Self::metadata_size(frames), "Lower::new precondition: buffer large enough (checked by MetaData::valid)");
        Ok(Lower { len: frames, bitfields: &[], children: &[] })
    }
}

// ---------------------------------------------------------------------------------------------
// C01 / C03 / C05 / C21 under ALL interleavings, lower allocator, orders below the huge order:
// the counter-then-bits protocol of Lower::get_at / Lower::put (put_small) on one huge frame against
// the rely/guarantee environment (rows of the frame's bitfield + its counter entry).
//   get_at : Ok => this thread owns exactly the block and holds no reserved unit;
//            Err => owns what it owned, holds no reserved unit (the undo `unwrap` cannot fail)
//   put    : of a held block => Ok, ownership shrank by the block, no pending unit ("Inc failed"
//            cannot fire)
// ---------------------------------------------------------------------------------------------
use crate::atomic::verif_contracts::{cenv, env};

fn rg_lower_start<const H: usize>(st: &LState, snap: &LSnap) -> Rows {
    let a = any_rows();
    let mut own = [0u64; ROWS];
    let mut bits = 0usize;
    for_rows!(r, {
        own[r] = a[r] & snap.rows[H][r];
        bits += own[r].count_ones() as usize;
    });
    unsafe {
        env::BASE = crate::bitfield::verif_contracts::row_ptr(&st.bfs[H]) as usize;
        env::NWORDS = ROWS;
        let mut r = 0;
        while r < ROWS && r < env::MAXW {
            env::OWN[r] = own[r];
            r += 1;
        }
        env::BUDGET = kani::any();
        env::UNITS_ON = true;
        env::RES = [0; env::MAXH];
        env::PEND = [0; env::MAXH];
        env::OWNED_BITS = [0; env::MAXH];
        env::OWNED_BITS[0] = bits;
        env::ON = true;
        cenv::PTR = &st.ch[H / TREE_HUGE][H % TREE_HUGE] as *const Atom<HugeEntry> as usize;
        cenv::N = 1;
        cenv::ON = true;
    }
    own
}
fn rg_lower_own() -> Rows {
    let mut o = [0u64; ROWS];
    let mut r = 0;
    while r < ROWS && r < env::MAXW {
        o[r] = unsafe { env::OWN[r] };
        r += 1;
    }
    o
}
fn rg_lower_state() -> (LState, LSnap) {
    let rows: [Rows; NBF] = core::array::from_fn(|_| any_rows());
    let ent: [u16; NBF] = kani::any();
    let st = LState::from(&rows, &ent);
    (st, LSnap { rows, ent, z: [0; NBF] })
}

fn rg_lower_get_at<const ORDER: usize, const H: usize>() {
    let (st, snap) = rg_lower_state();
    let own0 = rg_lower_start::<H>(&st, &snap);
    kani::assume(cenv::admissible(snap.ent[H]));
    let lower = st.lower_shaped::<NBF>(NT * TREE_FRAMES);
    let f = any_block_in::<ORDER, H>();
    let b = blk(f % LEN, ORDER);
    let r = lower.get(RowId(0), ORDER, Some(FrameId(f)));
    let own = rg_lower_own();
    vcover!(r.is_ok(), "targeted allocation under interference succeeds");
    vcover!(r.is_err(), "targeted allocation under interference fails");
    clause!(unsafe { env::RES[0] } == 0 && unsafe { env::PEND[0] } == 0, "C05: a completed call leaves no counter unit reserved or pending");
    if r.is_ok() {
        clause!(blk_all(&own0, &b, false) && rows_with_blk(&own0, &own, &b, true), "C01: a successful allocation owns exactly the returned block, under every interleaving");
    } else {
        clause!(rows_eq(&own0, &own), "C01: a failed allocation keeps nothing, under every interleaving");
    }
}
fn rg_lower_put<const ORDER: usize, const H: usize>() {
    let (st, snap) = rg_lower_state();
    let own0 = rg_lower_start::<H>(&st, &snap);
    kani::assume(cenv::admissible(snap.ent[H]));
    let lower = st.lower_shaped::<NBF>(NT * TREE_FRAMES);
    let f = any_block_in::<ORDER, H>();
    let b = blk(f % LEN, ORDER);
    kani::assume(blk_all(&own0, &b, true)); // the caller holds the block
    let r = lower.put(FrameId(f), ORDER);
    let own = rg_lower_own();
    clause!(r.is_ok(), "C03: the free of a held block succeeds under every interleaving");
    clause!(rows_with_blk(&own0, &own, &b, false), "C01: a free releases exactly the block");
    clause!(unsafe { env::RES[0] } == 0 && unsafe { env::PEND[0] } == 0, "C05: a completed free leaves no counter unit pending");
}
macro_rules! rg_lower_harness {
    ($f:ident, $($name:ident: ($o:expr, $h:expr)),+) => {
        $(
        #[kani::proof]
        #[kani::unwind(10)]
        #[kani::solver(kissat)]
        #[kani::stub(crate::atomic::Atom::load, crate::atomic::Atom::load_rg)]
        #[kani::stub(crate::atomic::Atom::store, crate::atomic::Atom::store_rg)]
        #[kani::stub(crate::atomic::Atom::compare_exchange, crate::atomic::Atom::compare_exchange_rg)]
        #[kani::stub(crate::atomic::Atom::try_update, crate::atomic::Atom::try_update_rg)]
        fn $name() {
            $f::<$o, $h>();
        }
        )+
    };
}
rg_lower_harness!(rg_lower_get_at, rg_lower_get_at_o0_h1: (0, 1), rg_lower_get_at_o3_h1: (3, 1), rg_lower_get_at_o6_h1: (6, 1), rg_lower_get_at_o7_h1: (7, 1), rg_lower_get_at_o8_h1: (8, 1));
rg_lower_harness!(rg_lower_put, rg_lower_put_o0_h1: (0, 1), rg_lower_put_o3_h1: (3, 1), rg_lower_put_o6_h1: (6, 1), rg_lower_put_o7_h1: (7, 1), rg_lower_put_o8_h1: (8, 1));

/// C03 (known finding F2): the state a peer leaves when it stalls inside `partial_put_huge` between
/// filling the bitfield and clearing the marker (marker set, bitfield all ones). A second holder of a
/// part of the same whole-allocated huge frame that frees its part now must not panic and must
/// succeed - but the bounded spin-wait gives up after RETRIES polls and panics.
#[cfg(not(feature = "tree_huge_1"))]
#[kani::proof]
#[kani::unwind(10)]
#[kani::stub(crate::atomic::Atom::try_update, crate::atomic::Atom::try_update_seq)]
#[kani::stub(core::hint::spin_loop, crate::util::verif_contracts::spin_loop_model)]
fn c03_partial_put_peer_stalled() {
    let rows: [Rows; NBF] = core::array::from_fn(|_| any_rows());
    let mut ent: [u16; NBF] = kani::any();
    let mut rows = rows;
    rows[1] = [u64::MAX; ROWS];
    ent[1] = u16::MAX;
    let st = LState::from(&rows, &ent);
    let lower = st.lower_shaped::<NBF>(NT * TREE_FRAMES);
    let off: usize = kani::any();
    kani::assume(off < LEN);
    let r = lower.put(FrameId(LEN + off), 0);
    clause!(r.is_ok(), "C03: the free of a held part of a split huge frame succeeds");
}

// Lower::get (search over the huge frames of a tree) under interference, orders below the huge order:
// counter reservation (real code, counter environment on all four entries), bit search by its
// rely/guarantee contract, undo of the reservation on failure.
fn rg_lower_get<const ORDER: usize, const H: usize>() {
    let (st, snap) = rg_lower_state();
    // this thread may already own any subset of the allocated bits of the whole tree
    let mut own = [[0u64; ROWS]; NBF];
    let mut bits = [0usize; NBF];
    let mut h = 0;
    while h < NBF {
        let a = any_rows();
        for_rows!(r, {
            own[h][r] = a[r] & snap.rows[h][r];
            bits[h] += own[h][r].count_ones() as usize;
        });
        h += 1;
    }
    unsafe {
        env::BASE = crate::bitfield::verif_contracts::row_ptr(&st.bfs[0]) as usize;
        env::NWORDS = NBF * ROWS;
        let mut h = 0;
        while h < NBF {
            for_rows!(r, {
                env::OWN[h * ROWS + r] = own[h][r];
            });
            env::OWNED_BITS[h] = bits[h];
            env::RES[h] = 0;
            env::PEND[h] = 0;
            h += 1;
        }
        env::BUDGET = kani::any();
        env::UNITS_ON = true;
        env::ON = true;
        cenv::PTR = &st.ch[0][0] as *const Atom<HugeEntry> as usize;
        cenv::N = NBF;
        cenv::ON = true;
    }
    let mut h = 0;
    while h < NBF {
        kani::assume(cenv::admissible_at(h, snap.ent[h]));
        h += 1;
    }
    let lower = st.lower_shaped::<NBF>(NT * TREE_FRAMES);
    let start_row: usize = kani::any();
    kani::assume(start_row < ROWS);
    let r = lower.get(RowId(H * ROWS + start_row), ORDER, None);
    vcover!(r.is_ok(), "search under interference succeeds");
    vcover!(r.is_err(), "search under interference fails");
    let mut h = 0;
    while h < NBF {
        clause!(unsafe { env::RES[h] } == 0 && unsafe { env::PEND[h] } == 0, "C05: a completed call leaves no counter unit reserved or pending");
        let mut now = [0u64; ROWS];
        for_rows!(r2, {
            now[r2] = unsafe { env::OWN[h * ROWS + r2] };
        });
        match r {
            Ok(f) if f.0 / LEN == h => {
                let b = blk(f.0 % LEN, ORDER);
                clause!(f.0 % (1usize << ORDER) == 0 && f.0 < NT * TREE_FRAMES, "C01: returned block aligned and inside the tree");
                clause!(blk_all(&own[h], &b, false) && rows_with_blk(&own[h], &now, &b, true), "C01: a successful allocation owns exactly the returned block, under every interleaving");
            }
            _ => clause!(rows_eq(&own[h], &now), "C01: ownership of every other huge frame is unchanged (a failed search keeps nothing)"),
        }
        h += 1;
    }
}
macro_rules! rg_lower_get_harness {
    ($($name:ident: ($o:expr, $h:expr)),+) => {
        $(
        #[kani::proof]
        #[kani::unwind(10)]
        #[kani::solver(kissat)]
        #[kani::stub(crate::atomic::Atom::load, crate::atomic::Atom::load_rg)]
        #[kani::stub(crate::atomic::Atom::store, crate::atomic::Atom::store_rg)]
        #[kani::stub(crate::atomic::Atom::compare_exchange, crate::atomic::Atom::compare_exchange_rg)]
        #[kani::stub(crate::atomic::Atom::try_update, crate::atomic::Atom::try_update_rg)]
        #[kani::stub(crate::bitfield::Bitfield::set_first_zeros, crate::bitfield::Bitfield::set_first_zeros_rg_contract)]
        fn $name() {
            rg_lower_get::<$o, $h>();
        }
        )+
    };
}
rg_lower_get_harness!(rg_lower_get_o0_h1: (0, 1), rg_lower_get_o3_h2: (3, 2), rg_lower_get_o7_h0: (7, 0), rg_lower_get_o8_h3: (8, 3));

// ---------------------------------------------------------------------------------------------
// Lower::new: carves the two arrays out of the caller's buffer and runs exactly the initialisation the
// mode names (C05: recovery happens HERE, before the upper level derives its counters from it).
// The initialisation functions are replaced by recording stubs; their own contracts are c06_* / c05_recover_*.
// ---------------------------------------------------------------------------------------------
static mut INIT_CALLED: [bool; 3] = [false; 3];
impl<'a> Lower<'a> {
    fn free_all_rec(&self) {
        unsafe { INIT_CALLED[0] = true };
    }
    fn reserve_all_rec(&self) {
        unsafe { INIT_CALLED[1] = true };
    }
    fn recover_rec(&self) {
        unsafe { INIT_CALLED[2] = true };
    }
}
#[repr(align(64))]
struct LowerBuf([u8; 512]);
#[kani::proof]
#[kani::unwind(4)]
#[kani::stub(crate::lower::Lower::free_all, crate::lower::Lower::free_all_rec)]
#[kani::stub(crate::lower::Lower::reserve_all, crate::lower::Lower::reserve_all_rec)]
#[kani::stub(crate::lower::Lower::recover, crate::lower::Lower::recover_rec)]
fn l1b_lower_new_dispatch() {
    let frames: usize = 600; // two bitfields, one table
    let mut buf = LowerBuf([0; 512]);
    let base = buf.0.as_ptr() as usize;
    let k: u8 = kani::any();
    kani::assume(k < 4);
    let init = match k {
        0 => Init::FreeAll,
        1 => Init::AllocAll,
        2 => Init::Recover,
        _ => Init::None,
    };
    let len: usize = kani::any();
    kani::assume(len <= 512);
    unsafe { INIT_CALLED = [false; 3] };
    let r = Lower::new(frames, init, &mut buf.0[..len]);
    let need = Lower::metadata_size(frames);
    clause!(r.is_ok() == (len >= need), "C08: Lower::new rejects exactly the buffers that are too small");
    if let Ok(l) = r {
        let called = unsafe { INIT_CALLED };
        clause!(called[0] == (k == 0) && called[1] == (k == 1) && called[2] == (k == 2), "C05/C06: Lower::new runs exactly the initialisation its mode names (recovery happens here)");
        clause!(l.frames() == frames && l.bitfields.len() == 2 && l.children.len() == 1, "C18: Lower::new carves ceil(frames/512) bitfields and ceil(frames/TREE_FRAMES) tables");
        clause!(l.bitfields.as_ptr() as usize == base && l.children.as_ptr() as usize == base + 2 * core::mem::size_of::<Align<Bitfield>>(), "C18: the arrays lie inside the buffer, the tables behind the bitfields");
    }
}
