// generated: one instance per number of bitfields B
#[cfg(all(feature = "tree_huge_1", not(feature = "verif_nt2")))]
recover_harness!(c05_recover_any_state, c05_recover_b1: 1);
#[cfg(all(feature = "tree_huge_1", not(feature = "verif_nt2")))]
init_harness!(c06_free_all, c06_free_all_b1: 1);
#[cfg(all(feature = "tree_huge_1", not(feature = "verif_nt2")))]
init_harness!(c06_reserve_all, c06_reserve_all_b1: 1);
#[cfg(all(feature = "tree_huge_1", feature = "verif_nt2"))]
recover_harness!(c05_recover_any_state, c05_recover_b1: 1, c05_recover_b2: 2);
#[cfg(all(feature = "tree_huge_1", feature = "verif_nt2"))]
init_harness!(c06_free_all, c06_free_all_b1: 1, c06_free_all_b2: 2);
#[cfg(all(feature = "tree_huge_1", feature = "verif_nt2"))]
init_harness!(c06_reserve_all, c06_reserve_all_b1: 1, c06_reserve_all_b2: 2);
#[cfg(all(feature = "tree_huge_2", not(feature = "verif_nt2")))]
recover_harness!(c05_recover_any_state, c05_recover_b1: 1, c05_recover_b2: 2);
#[cfg(all(feature = "tree_huge_2", not(feature = "verif_nt2")))]
init_harness!(c06_free_all, c06_free_all_b1: 1, c06_free_all_b2: 2);
#[cfg(all(feature = "tree_huge_2", not(feature = "verif_nt2")))]
init_harness!(c06_reserve_all, c06_reserve_all_b1: 1, c06_reserve_all_b2: 2);
#[cfg(all(feature = "tree_huge_2", feature = "verif_nt2"))]
recover_harness!(c05_recover_any_state, c05_recover_b1: 1, c05_recover_b2: 2, c05_recover_b3: 3, c05_recover_b4: 4);
#[cfg(all(feature = "tree_huge_2", feature = "verif_nt2"))]
init_harness!(c06_free_all, c06_free_all_b1: 1, c06_free_all_b2: 2, c06_free_all_b3: 3, c06_free_all_b4: 4);
#[cfg(all(feature = "tree_huge_2", feature = "verif_nt2"))]
init_harness!(c06_reserve_all, c06_reserve_all_b1: 1, c06_reserve_all_b2: 2, c06_reserve_all_b3: 3, c06_reserve_all_b4: 4);
#[cfg(all(not(any(feature = "tree_huge_1", feature = "tree_huge_2", feature = "tree_huge_8")), not(feature = "verif_nt2")))]
recover_harness!(c05_recover_any_state, c05_recover_b1: 1, c05_recover_b2: 2, c05_recover_b3: 3, c05_recover_b4: 4);
#[cfg(all(not(any(feature = "tree_huge_1", feature = "tree_huge_2", feature = "tree_huge_8")), not(feature = "verif_nt2")))]
init_harness!(c06_free_all, c06_free_all_b1: 1, c06_free_all_b2: 2, c06_free_all_b3: 3, c06_free_all_b4: 4);
#[cfg(all(not(any(feature = "tree_huge_1", feature = "tree_huge_2", feature = "tree_huge_8")), not(feature = "verif_nt2")))]
init_harness!(c06_reserve_all, c06_reserve_all_b1: 1, c06_reserve_all_b2: 2, c06_reserve_all_b3: 3, c06_reserve_all_b4: 4);
#[cfg(all(not(any(feature = "tree_huge_1", feature = "tree_huge_2", feature = "tree_huge_8")), feature = "verif_nt2"))]
recover_harness!(c05_recover_any_state, c05_recover_b1: 1, c05_recover_b2: 2, c05_recover_b3: 3, c05_recover_b4: 4, c05_recover_b5: 5, c05_recover_b6: 6, c05_recover_b7: 7, c05_recover_b8: 8);
#[cfg(all(not(any(feature = "tree_huge_1", feature = "tree_huge_2", feature = "tree_huge_8")), feature = "verif_nt2"))]
init_harness!(c06_free_all, c06_free_all_b1: 1, c06_free_all_b2: 2, c06_free_all_b3: 3, c06_free_all_b4: 4, c06_free_all_b5: 5, c06_free_all_b6: 6, c06_free_all_b7: 7, c06_free_all_b8: 8);
#[cfg(all(not(any(feature = "tree_huge_1", feature = "tree_huge_2", feature = "tree_huge_8")), feature = "verif_nt2"))]
init_harness!(c06_reserve_all, c06_reserve_all_b1: 1, c06_reserve_all_b2: 2, c06_reserve_all_b3: 3, c06_reserve_all_b4: 4, c06_reserve_all_b5: 5, c06_reserve_all_b6: 6, c06_reserve_all_b7: 7, c06_reserve_all_b8: 8);
#[cfg(all(feature = "tree_huge_8", not(feature = "verif_nt2")))]
recover_harness!(c05_recover_any_state, c05_recover_b1: 1, c05_recover_b2: 2, c05_recover_b3: 3, c05_recover_b4: 4, c05_recover_b5: 5, c05_recover_b6: 6, c05_recover_b7: 7, c05_recover_b8: 8);
#[cfg(all(feature = "tree_huge_8", not(feature = "verif_nt2")))]
init_harness!(c06_free_all, c06_free_all_b1: 1, c06_free_all_b2: 2, c06_free_all_b3: 3, c06_free_all_b4: 4, c06_free_all_b5: 5, c06_free_all_b6: 6, c06_free_all_b7: 7, c06_free_all_b8: 8);
#[cfg(all(feature = "tree_huge_8", not(feature = "verif_nt2")))]
init_harness!(c06_reserve_all, c06_reserve_all_b1: 1, c06_reserve_all_b2: 2, c06_reserve_all_b3: 3, c06_reserve_all_b4: 4, c06_reserve_all_b5: 5, c06_reserve_all_b6: 6, c06_reserve_all_b7: 7, c06_reserve_all_b8: 8);
#[cfg(all(feature = "tree_huge_8", feature = "verif_nt2"))]
recover_harness!(c05_recover_any_state, c05_recover_b1: 1, c05_recover_b2: 2, c05_recover_b3: 3, c05_recover_b4: 4, c05_recover_b5: 5, c05_recover_b6: 6, c05_recover_b7: 7, c05_recover_b8: 8, c05_recover_b9: 9, c05_recover_b10: 10, c05_recover_b11: 11, c05_recover_b12: 12, c05_recover_b13: 13, c05_recover_b14: 14, c05_recover_b15: 15, c05_recover_b16: 16);
#[cfg(all(feature = "tree_huge_8", feature = "verif_nt2"))]
init_harness!(c06_free_all, c06_free_all_b1: 1, c06_free_all_b2: 2, c06_free_all_b3: 3, c06_free_all_b4: 4, c06_free_all_b5: 5, c06_free_all_b6: 6, c06_free_all_b7: 7, c06_free_all_b8: 8, c06_free_all_b9: 9, c06_free_all_b10: 10, c06_free_all_b11: 11, c06_free_all_b12: 12, c06_free_all_b13: 13, c06_free_all_b14: 14, c06_free_all_b15: 15, c06_free_all_b16: 16);
#[cfg(all(feature = "tree_huge_8", feature = "verif_nt2"))]
init_harness!(c06_reserve_all, c06_reserve_all_b1: 1, c06_reserve_all_b2: 2, c06_reserve_all_b3: 3, c06_reserve_all_b4: 4, c06_reserve_all_b5: 5, c06_reserve_all_b6: 6, c06_reserve_all_b7: 7, c06_reserve_all_b8: 8, c06_reserve_all_b9: 9, c06_reserve_all_b10: 10, c06_reserve_all_b11: 11, c06_reserve_all_b12: 12, c06_reserve_all_b13: 13, c06_reserve_all_b14: 14, c06_reserve_all_b15: 15, c06_reserve_all_b16: 16);
