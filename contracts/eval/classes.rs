//! Contracts for `eval/src/classes.rs` (C19). Child module: sees `Count`, `ClassConfig`, `GfpMatch`.
use super::*;

macro_rules! vcover {
    ($c:expr, $m:literal) => {
        #[cfg(not(any(feature = "verif_replay", feature = "verif_nocover")))]
        kani::cover!($c, $m);
    };
}
macro_rules! clause {
    ($c:expr, $m:literal) => {
        kani::assert($c, $m)
    };
}

fn any_count() -> Count {
    let k: u8 = kani::any();
    kani::assume(k < 5);
    match k {
        0 => Count::Zero,
        1 => Count::One,
        2 => Count::Cores,
        3 => Count::CoresHalf,
        _ => Count::Pids,
    }
}

/// `Count::to_local` against `Count::to_count`: the slot is none or below the slot count.
/// Full usize domain for core, cores (>= 1, the harness never runs with zero cores) and pid.
#[kani::proof]
fn c19_count_to_local() {
    let c = any_count();
    let core: usize = kani::any();
    let cores: usize = kani::any();
    let pid: usize = kani::any();
    kani::assume(cores >= 1);
    let n = c.to_count(cores);
    let l = c.to_local(core, cores, pid);
    vcover!(l.is_none(), "no slot");
    vcover!(l.is_some(), "slot");
    if let Some(i) = l {
        clause!(i < n, "C19: slot index below the class's slot count");
    }
}

fn any_gfp_flag() -> GFP {
    let k: u8 = kani::any();
    kani::assume(k < 4);
    match k {
        0 => GFP::DMA,
        1 => GFP::MOVABLE,
        2 => GFP::ZERO,
        _ => GFP::PAGE_CACHE,
    }
}
/// A symbolic matcher: every constructor once, nesting depth <= 1. The postcondition of `request`
/// does not depend on how a matcher evaluates (any boolean per class), only on which class is chosen.
fn any_gfp_match() -> GfpMatch {
    let k: u8 = kani::any();
    kani::assume(k < 5);
    match k {
        0 => GfpMatch::On(any_gfp_flag()),
        1 => GfpMatch::Off(any_gfp_flag()),
        2 => GfpMatch::All(Vec::new()),
        3 => GfpMatch::Any(Vec::new()),
        _ => GfpMatch::Not(Box::new(GfpMatch::On(any_gfp_flag()))),
    }
}
fn any_class_config() -> ClassConfig {
    let id: u8 = kani::any();
    kani::assume(id < 8); // ids the allocator can represent (Class::BITS = 3)
    let order = if kani::any() {
        let lo: usize = kani::any();
        let hi: usize = kani::any();
        Some((lo, hi))
    } else {
        None
    };
    ClassConfig { id, count: any_count(), order, gfp: any_gfp_match() }
}

/// Contract stub for `GfpMatch::matches`: an arbitrary boolean (over-approximates every matcher; the
/// recursive evaluation over `Vec`/`Box` is checked separately for shallow matchers).
impl GfpMatch {
    fn matches_any(&self, _gfp: u32) -> bool {
        kani::any()
    }
}

/// `ClassingConfig::request` for a configuration of N classes with pairwise distinct ids.
fn request_names_configured_class<const N: usize>() {
    let mut classes = Vec::with_capacity(N);
    let mut i = 0;
    while i < N {
        classes.push(any_class_config());
        i += 1;
    }
    let mut a = 0;
    while a < N {
        let mut b = a + 1;
        while b < N {
            kani::assume(classes[a].id != classes[b].id);
            b += 1;
        }
        a += 1;
    }
    let cfg = ClassingConfig { classes, default: 0, perfect: (0, 0), good: (0, 0) };
    let order: usize = kani::any();
    let core: usize = kani::any();
    let cores: usize = kani::any();
    let pid: usize = kani::any();
    let gfp: u32 = kani::any();
    kani::assume(cores >= 1);
    let r = cfg.request(order, core, cores, pid, gfp);
    let mut found = false;
    let mut i = 0;
    while i < N {
        if cfg.classes[i].id == r.class.0 {
            found = true;
            let n = cfg.classes[i].count.to_count(cores);
            vcover!(r.local.is_some(), "request with slot");
            clause!(r.local.is_none_or(|l| l < n), "C19: request slot below the slot count of the named class");
        }
        i += 1;
    }
    clause!(found, "C19: request names a configured class");
    core::mem::forget(cfg);
}
#[kani::proof]
#[kani::unwind(4)]
#[kani::stub(GfpMatch::matches, GfpMatch::matches_any)]
fn c19_request_n1() {
    request_names_configured_class::<1>();
}
#[kani::proof]
#[kani::unwind(5)]
#[kani::stub(GfpMatch::matches, GfpMatch::matches_any)]
fn c19_request_n2() {
    request_names_configured_class::<2>();
}
#[kani::proof]
#[kani::unwind(6)]
#[kani::stub(GfpMatch::matches, GfpMatch::matches_any)]
fn c19_request_n3() {
    request_names_configured_class::<3>();
}
#[kani::proof]
#[kani::unwind(7)]
#[kani::stub(GfpMatch::matches, GfpMatch::matches_any)]
fn c19_request_n4() {
    request_names_configured_class::<4>();
}
