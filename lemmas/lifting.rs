// Lifting lemmas (DESIGN.md 3.4): code-free inductions over the CONTRACTS that the Kani obligations
// establish per call. Checked by `verus lemmas/lifting.rs`.
//
//  * lemma_inv_history: if initialisation establishes an invariant and every operation's contract
//    preserves it, it holds after every finite history (any length).
//  * lemma_held_disjoint: if every successful allocation returns a block that was entirely free and
//    marks exactly it allocated, every free of a held block releases exactly that block, and every
//    other call leaves the allocation status unchanged (the postconditions of l1b_get/get_at/put and
//    of the allocator-level contract G), then after every history the held blocks are pairwise
//    disjoint and all allocated (C01 sequential part, C02).
use vstd::prelude::*;

verus! {

// ---------------------------------------------------------------------------------------------
// 1. generic induction over histories
// ---------------------------------------------------------------------------------------------
pub trait System {
    type S;
    type Op;
    spec fn init(s: Self::S) -> bool;
    spec fn step(s: Self::S, op: Self::Op, t: Self::S) -> bool;
    spec fn inv(s: Self::S) -> bool;
    proof fn init_establishes(s: Self::S)
        requires Self::init(s),
        ensures Self::inv(s);
    proof fn step_preserves(s: Self::S, op: Self::Op, t: Self::S)
        requires Self::inv(s), Self::step(s, op, t),
        ensures Self::inv(t);
}

pub open spec fn is_history<T: System>(states: Seq<T::S>, ops: Seq<T::Op>) -> bool {
    &&& states.len() == ops.len() + 1
    &&& T::init(states[0])
    &&& forall|i: int| 0 <= i < ops.len() ==> T::step(states[i], ops[i], states[i + 1])
}

pub proof fn lemma_inv_history<T: System>(states: Seq<T::S>, ops: Seq<T::Op>, k: int)
    requires is_history::<T>(states, ops), 0 <= k < states.len(),
    ensures T::inv(states[k]),
    decreases k,
{
    if k == 0 {
        T::init_establishes(states[0]);
    } else {
        lemma_inv_history::<T>(states, ops, k - 1);
        T::step_preserves(states[k - 1], ops[k - 1], states[k]);
    }
}

// ---------------------------------------------------------------------------------------------
// 2. held blocks stay pairwise disjoint
// ---------------------------------------------------------------------------------------------
pub struct AState {
    pub allocated: Set<int>,        // frames whose status is "allocated" (abstract view)
    pub held: Seq<Set<int>>,        // blocks handed out and not yet freed
}

pub enum AOp {
    Alloc { block: Set<int> },      // a successful allocation returning `block`
    Free { idx: int },              // a successful free of held block number idx
    Other,                          // failing calls, drains, tree changes, queries
}

pub open spec fn a_inv(s: AState) -> bool {
    &&& forall|i: int, j: int| 0 <= i < j < s.held.len() ==> s.held[i].disjoint(s.held[j])
    &&& forall|i: int| 0 <= i < s.held.len() ==> s.held[i].subset_of(s.allocated)
}

/// The per-call contracts, as a transition relation.
pub open spec fn a_step(s: AState, op: AOp, t: AState) -> bool {
    match op {
        // contract of get/get_at: the block was entirely free, exactly it becomes allocated
        AOp::Alloc { block } => block.disjoint(s.allocated) && t.allocated == s.allocated.union(block) && t.held == s.held.push(block),
        // contract of put for a held block: exactly the block becomes free
        AOp::Free { idx } => 0 <= idx < s.held.len() && t.allocated == s.allocated.difference(s.held[idx]) && t.held == s.held.remove(idx),
        // every failing call leaves the allocation status unchanged
        AOp::Other => t == s,
    }
}

pub proof fn lemma_step_keeps_disjoint(s: AState, op: AOp, t: AState)
    requires a_inv(s), a_step(s, op, t),
    ensures a_inv(t),
{
    match op {
        AOp::Alloc { block } => {
            assert forall|i: int, j: int| 0 <= i < j < t.held.len() implies t.held[i].disjoint(t.held[j]) by {
                if j == s.held.len() {
                    // the new block was free, every old held block is allocated
                    assert(t.held[j] == block);
                    assert(t.held[i] == s.held[i]);
                    assert(s.held[i].subset_of(s.allocated));
                } else {
                    assert(t.held[i] == s.held[i] && t.held[j] == s.held[j]);
                }
            }
            assert forall|i: int| 0 <= i < t.held.len() implies t.held[i].subset_of(t.allocated) by {
                if i < s.held.len() {
                    assert(t.held[i] == s.held[i]);
                    assert(s.held[i].subset_of(s.allocated));
                }
            }
        }
        AOp::Free { idx } => {
            assert forall|i: int, j: int| 0 <= i < j < t.held.len() implies t.held[i].disjoint(t.held[j]) by {
                let oi = if i < idx { i } else { i + 1 };
                let oj = if j < idx { j } else { j + 1 };
                assert(t.held[i] == s.held[oi] && t.held[j] == s.held[oj]);
                assert(oi < oj);
            }
            assert forall|i: int| 0 <= i < t.held.len() implies t.held[i].subset_of(t.allocated) by {
                let oi = if i < idx { i } else { i + 1 };
                assert(t.held[i] == s.held[oi]);
                assert(s.held[oi].subset_of(s.allocated));
                // held blocks are disjoint from the freed one, so they stay allocated
                if oi < idx {
                    assert(s.held[oi].disjoint(s.held[idx]));
                } else {
                    assert(s.held[idx].disjoint(s.held[oi]));
                }
            }
        }
        AOp::Other => {}
    }
}

pub struct Alloc;
impl System for Alloc {
    type S = AState;
    type Op = AOp;
    open spec fn init(s: AState) -> bool { s.held.len() == 0 }
    open spec fn step(s: AState, op: AOp, t: AState) -> bool { a_step(s, op, t) }
    open spec fn inv(s: AState) -> bool { a_inv(s) }
    proof fn init_establishes(s: AState) {}
    proof fn step_preserves(s: AState, op: AOp, t: AState) { lemma_step_keeps_disjoint(s, op, t); }
}

/// After every history of calls meeting their contracts, the held blocks are pairwise disjoint.
pub proof fn lemma_held_disjoint(states: Seq<AState>, ops: Seq<AOp>, k: int, i: int, j: int)
    requires is_history::<Alloc>(states, ops), 0 <= k < states.len(), 0 <= i < j < states[k].held.len(),
    ensures states[k].held[i].disjoint(states[k].held[j]),
{
    lemma_inv_history::<Alloc>(states, ops, k);
}

} // verus!

fn main() {}
